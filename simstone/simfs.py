"""SimFS: interposition layer over a real scratch tree on tmpfs.

Every call that can touch the scratch tree goes through a shim that logs it,
asks the fault plan whether this call fails (errno, short write, close error,
crash) and re-orders directory listings.  Calls on paths outside the scratch
tree (the stone package, the standard library) pass through untouched.
"""
import builtins
import errno
import hashlib
import io
import os
import shutil
import tempfile

_real = {
    'open': builtins.open,
    'io_open': io.open,
    'makedirs': os.makedirs,
    'mkdir': os.mkdir,
    'remove': os.remove,
    'unlink': os.unlink,
    'rename': os.rename,
    'replace': os.replace,
    'rmdir': os.rmdir,
    'walk': os.walk,
    'listdir': os.listdir,
    'scandir': os.scandir,
    'copy': shutil.copy,
    'copy2': shutil.copy2,
    'copyfile': shutil.copyfile,
    'rmtree': shutil.rmtree,
}


class SimCrash(BaseException):
    """Process death at a file-system call (not an Exception on purpose)."""


def scratch_dir(tag='simstone'):
    base = '/dev/shm' if os.path.isdir('/dev/shm') and os.access('/dev/shm', os.W_OK) else None
    return tempfile.mkdtemp(prefix=tag + '-', dir=base)


def rm_scratch(path):
    _real['rmtree'](path, ignore_errors=True)


def real_open(*a, **k):
    return _real['open'](*a, **k)


def write_file(path, data):
    d = os.path.dirname(path)
    if d and not os.path.isdir(d):
        _real['makedirs'](d)
    mode = 'wb' if isinstance(data, bytes) else 'w'
    kw = {} if isinstance(data, bytes) else {'encoding': 'utf-8', 'newline': ''}
    with _real['open'](path, mode, **kw) as f:
        f.write(data)


def snapshot(root):
    """path (relative to root) -> 'd' or sha1 of contents. Uses the real functions."""
    out = {}
    root = os.path.abspath(root)
    for dp, dns, fns in _real['walk'](root):
        rel = os.path.relpath(dp, root)
        out[rel if rel != '.' else ''] = 'd'
        for fn in fns:
            p = os.path.join(dp, fn)
            r = os.path.relpath(p, root)
            try:
                with _real['open'](p, 'rb') as f:
                    out[r] = hashlib.sha1(f.read()).hexdigest()
            except OSError as e:
                out[r] = 'err:%s' % e.errno
    return out


def read_tree(root):
    """relative path -> bytes for every regular file under root."""
    out = {}
    root = os.path.abspath(root)
    for dp, dns, fns in _real['walk'](root):
        for fn in fns:
            p = os.path.join(dp, fn)
            with _real['open'](p, 'rb') as f:
                out[os.path.relpath(p, root)] = f.read()
    return out


_MUTATING = {'open_w', 'makedirs', 'mkdir', 'remove', 'rename', 'replace', 'rmdir',
             'copy', 'copy2', 'copyfile', 'rmtree'}

ERRNOS = {'ENOSPC': errno.ENOSPC, 'EIO': errno.EIO, 'EACCES': errno.EACCES,
          'EMFILE': errno.EMFILE, 'EEXIST': errno.EEXIST, 'ENOENT': errno.ENOENT,
          'EROFS': errno.EROFS}


class _FaultyFile:
    """Proxy that tears the write or fails the close of one opened file."""

    def __init__(self, f, fs, fault, path):
        self._f = f
        self._fs = fs
        self._fault = fault
        self._path = path

    def write(self, data):
        kind = self._fault[0]
        if kind == 'short':
            num, den, err = self._fault[1], self._fault[2], self._fault[3]
            n = (len(data) * num) // den
            self._f.write(data[:n])
            self._f.flush()
            self._fs.fired('short_write')
            self._fs.log.append(('torn', self._fs.rel(self._path), n, len(data)))
            self._fault = ('none',)
            raise OSError(ERRNOS[err], os.strerror(ERRNOS[err]), self._path)
        return self._f.write(data)

    def close(self):
        self._f.close()
        if self._fault[0] == 'closefail':
            err = self._fault[1]
            self._fault = ('none',)
            self._fs.fired('close_error')
            raise OSError(ERRNOS[err], os.strerror(ERRNOS[err]), self._path)

    def __enter__(self):
        return self

    def __exit__(self, *a):
        self.close()
        return False

    def __getattr__(self, name):
        return getattr(self._f, name)

    def __iter__(self):
        return iter(self._f)


class SimFS:
    """Install with `with fs:`.

    plan: {call_index: fault}; fault is one of
      ('errno', NAME)            the call fails with OSError(NAME) before doing anything
      ('short', num, den, NAME)  (open for write) the first write stores num/den of the data, then fails
      ('closefail', NAME)        (open for write) close fails after the data reached the file
      ('crash',)                 SimCrash is raised instead of performing the call
      ('eexist_race',)           (makedirs/mkdir) someone else creates the directory first
    Only calls on paths under `scratch` count and are logged.
    order: optional callable(list, where) -> list deciding directory listing order.
    """

    def __init__(self, scratch, plan=None, order=None, mutating_only=True, wplan=None, oplan=None):
        self.scratch = os.path.abspath(scratch)
        self.plan = dict(plan or {})
        # the same faults addressed by the index among mutating calls (wplan) or among opens for
        # writing (oplan): a fault placed this way always lands in the output phase of a run
        self.wplan = dict(wplan or {})
        self.oplan = dict(oplan or {})
        self.wcalls = 0
        self.ocalls = 0
        self.order = order
        self.log = []        # (op, relpath(s)..., extra)
        self.calls = 0       # index of the next fault point
        self.fault_counts = {}
        self.succeeded = set()
        self.depth = 0
        self.mutating_only = mutating_only
        self._installed = False

    # ------------------------------------------------------------------
    @staticmethod
    def _abs(path):
        p = os.path.abspath(os.fspath(path))
        if isinstance(p, bytes):
            p = os.fsdecode(p)
        if p.startswith('//'):
            p = '/' + p.lstrip('/')
        return p

    def rel(self, path):
        return os.path.relpath(self._abs(path), self.scratch)

    def inside(self, path):
        try:
            p = self._abs(path)
        except TypeError:
            return False
        return p == self.scratch or p.startswith(self.scratch + os.sep)

    def fired(self, kind):
        self.fault_counts[kind] = self.fault_counts.get(kind, 0) + 1

    def _point(self, op, paths, fault_ok=True):
        """A fault point.  Returns the fault to apply by the caller or None."""
        idx = self.calls
        self.calls += 1
        rels = tuple(self.rel(p) for p in paths)
        self.log.append((op, idx, self.depth) + rels)
        fault = self.plan.get(idx)
        if op != 'open_r':
            if fault is None:
                fault = self.wplan.get(self.wcalls)
            self.wcalls += 1
            if op == 'open_w':
                if fault is None:
                    fault = self.oplan.get(self.ocalls)
                self.ocalls += 1
        if fault is None:
            return None
        if fault[0] == 'crash':
            self.fired('crash')
            self.log.append(('CRASH', idx))
            raise SimCrash('crash at fs call %d (%s %s)' % (idx, op, rels))
        if fault[0] == 'errno':
            self.fired('errno_' + fault[1])
            self.log.append(('FAULT', idx, fault[1]))
            raise OSError(ERRNOS[fault[1]], os.strerror(ERRNOS[fault[1]]), paths[0])
        return fault

    # ------------------------------------------------------------------
    def _open(self, which):
        real = _real[which]

        def sim_open(file, mode='r', *a, **k):
            if isinstance(file, int) or not self.inside(file):
                return real(file, mode, *a, **k)
            writing = any(c in mode for c in 'wax+')
            op = 'open_w' if writing else 'open_r'
            idx = self.calls
            fault = self._point(op, [file])
            f = real(file, mode, *a, **k)
            self.succeeded.add(idx)
            if fault is not None and writing and fault[0] in ('short', 'closefail'):
                return _FaultyFile(f, self, fault, file)
            return f
        return sim_open

    def _wrap1(self, name):
        real = _real[name]

        def sim(path, *a, **k):
            if k.get('dir_fd') is not None or isinstance(path, int) or not self.inside(path):
                return real(path, *a, **k)
            idx = self.calls
            fault = self._point(name, [path])
            if fault is not None and fault[0] == 'eexist_race' and name in ('makedirs', 'mkdir'):
                self.fired('eexist_race')
                try:
                    _real['makedirs'](path)
                except OSError:
                    pass
            self.depth += 1
            try:
                out = real(path, *a, **k)
                self.succeeded.add(idx)
                return out
            finally:
                self.depth -= 1
        return sim

    def _wrap2(self, name):
        real = _real[name]

        def sim(src, dst, *a, **k):
            if not (self.inside(src) or self.inside(dst)):
                return real(src, dst, *a, **k)
            idx = self.calls
            self._point(name, [dst, src] if self.inside(dst) else [src, dst])
            self.depth += 1
            try:
                out = real(src, dst, *a, **k)
                self.succeeded.add(idx)
                return out
            finally:
                self.depth -= 1
        return sim

    def _walk(self):
        real = _real['walk']

        def sim_walk(top, topdown=True, onerror=None, followlinks=False):
            if not self.inside(top) or self.order is None or not topdown:
                yield from real(top, topdown, onerror, followlinks)
                return
            for dp, dns, fns in real(top, True, onerror, followlinks):
                dns[:] = self.order(sorted(dns), dp)
                fns[:] = self.order(sorted(fns), dp)
                yield dp, dns, fns
        return sim_walk

    def _listdir(self):
        real = _real['listdir']

        def sim_listdir(path='.'):
            out = real(path)
            if self.order is not None and self.inside(path):
                out = self.order(sorted(out), path)
            return out
        return sim_listdir

    # ------------------------------------------------------------------
    def __enter__(self):
        assert not self._installed
        builtins.open = self._open('open')
        io.open = self._open('io_open')
        for n in ('makedirs', 'mkdir', 'remove', 'unlink', 'rmdir'):
            setattr(os, n, self._wrap1(n))
        for n in ('rename', 'replace'):
            setattr(os, n, self._wrap2(n))
        os.walk = self._walk()
        os.listdir = self._listdir()
        for n in ('copy', 'copy2', 'copyfile'):
            setattr(shutil, n, self._wrap2(n))
        shutil.rmtree = self._wrap1('rmtree')
        self._installed = True
        return self

    def __exit__(self, *a):
        builtins.open = _real['open']
        io.open = _real['io_open']
        for n in ('makedirs', 'mkdir', 'remove', 'unlink', 'rename', 'replace', 'rmdir',
                  'walk', 'listdir', 'scandir'):
            setattr(os, n, _real[n])
        for n in ('copy', 'copy2', 'copyfile', 'rmtree'):
            setattr(shutil, n, _real[n])
        self._installed = False
        return False

    # ------------------------------------------------------------------
    def mutations(self):
        """[(op, idx, depth, relpaths...)] for mutating calls only."""
        return [e for e in self.log if e[0] in _MUTATING]
