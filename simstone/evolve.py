"""Backwards-compatible spec edits (docs/evolve_spec.rst) and the view of a value under another version.

Every struct/union/alias carries a stable `uid` so that renames can be followed across versions.
"""
import copy

from . import specgen
from .specgen import Struct, Union, Alias, Route, Field, Tag, T, prim
from .refcodec import field_default, struct_has_required, canon, CATCH_ALL


def assign_uids(model):
    for n in model.namespaces.values():
        for d in n.defs:
            if isinstance(d, (Struct, Union, Alias)):
                d.uid = '%s.%s' % (d.ns, d.name)
    model.counter = 0


def by_uid(model):
    return {d.uid: d for n in model.namespaces.values() for d in n.defs
            if isinstance(d, (Struct, Union, Alias))}


def _fresh(model, prefix):
    model.counter += 1
    return '%s%d' % (prefix, model.counter)


def _iter_type_slots(model):
    """Yield (owner description, getter, setter) for every type expression slot in the model."""
    for n in model.namespaces.values():
        for d in n.defs:
            if isinstance(d, Struct):
                for f in d.fields:
                    yield ('field', d, f), f
            elif isinstance(d, Union):
                for g in d.tags:
                    if g.type is not None:
                        yield ('tag', d, g), g
            elif isinstance(d, Alias):
                yield ('alias', d, d), d


def _walk_refs(t, fn):
    if t is None:
        return
    if t.kind == 'ref':
        fn(t)
    elif t.kind == 'list':
        _walk_refs(t.item, fn)
    elif t.kind == 'map':
        _walk_refs(t.val, fn)
    elif t.kind == 'nullable':
        _walk_refs(t.inner, fn)


def rename_type(model, d, new_name):
    old = (d.ns, d.name)

    def fix(t):
        if (t.ns, t.name) == old:
            t.name = new_name
    for n in model.namespaces.values():
        for x in n.defs:
            if isinstance(x, Struct):
                if x.parent == old:
                    x.parent = (old[0], new_name)
                if x.subtypes:
                    x.subtypes['tags'] = [(tg, (r[0], new_name) if tuple(r) == old else r)
                                          for tg, r in x.subtypes['tags']]
                for f in x.fields:
                    _walk_refs(f.type, fix)
            elif isinstance(x, Union):
                if x.parent == old:
                    x.parent = (old[0], new_name)
                for g in x.tags:
                    _walk_refs(g.type, fix)
            elif isinstance(x, Alias):
                _walk_refs(x.type, fix)
            elif isinstance(x, Route):
                for a in ('arg', 'result', 'error'):
                    _walk_refs(getattr(x, a), fix)
    d.name = new_name


def is_open(model, u):
    return not u.closed


def apply_edits(tape, model, nedits):
    """-> (new model, [edit descriptions]).  The input model is not modified."""
    m = model.clone()
    log = []
    g = specgen.Gen(tape, specgen.Cfg(docs=False, annotations=False, cycles=False))
    g.m = m
    structs = [d for d in m.types() if isinstance(d, Struct)]
    unions = [d for d in m.types() if isinstance(d, Union)]
    for _ in range(nedits):
        structs = [d for d in m.types() if isinstance(d, Struct)]
        unions = [d for d in m.types() if isinstance(d, Union)]
        kind = tape.weighted([(22, 'add-optional-field'), (14, 'add-default-field'), (18, 'add-tag'),
                              (12, 'void-to-typed'), (10, 'add-subtype'), (6, 'add-route'), (8, 'rename'),
                              (5, 'introduce-alias'), (5, 'inline-alias')])
        if kind in ('add-optional-field', 'add-default-field') and structs:
            s = structs[tape.draw(len(structs))]
            name = _fresh(m, 'nf')
            if kind == 'add-optional-field':
                inner = g.gen_type(s.ns, allow_nullable=False)
                ty = inner if m.unwrap(inner)[1] else T('nullable', inner=inner)
                f = Field(name=name, type=ty, default=None, doc=None, anns=[])
            else:
                vis_unions = [u for u in g.visible_types(s.ns, (Union,))
                              if any(x.type is None for x in m.all_tags(u))]
                if vis_unions and tape.chance(30):
                    u = vis_unions[tape.draw(len(vis_unions))]
                    voids = [x.name for x in m.all_tags(u) if x.type is None]
                    f = Field(name=name, type=T('ref', ns=u.ns, name=u.name),
                              default=('tag', tape.choice(voids)), doc=None, anns=[])
                else:
                    p = g.gen_prim(allow=('String', 'Int32', 'Int64', 'UInt32', 'UInt64', 'Float64',
                                          'Float32', 'Boolean'))
                    f = Field(name=name, type=p, default=g.literal_default(p), doc=None, anns=[])
            s.fields.insert(tape.draw(len(s.fields) + 1), f)
            log.append({'edit': kind, 'uid': s.uid, 'field': name, 'ctx': context_of(m, s)})
        elif kind == 'add-tag':
            cands = [u for u in unions if is_open(m, u)]
            if not cands:
                continue
            u = cands[tape.draw(len(cands))]
            name = _fresh(m, 'nt')
            ty = None
            if tape.chance(65):
                ty = _no_self(m, g.gen_type(u.ns), u, g)
            u.tags.insert(tape.draw(len(u.tags) + 1), Tag(name=name, type=ty, doc=None))
            log.append({'edit': kind, 'uid': u.uid, 'tag': name, 'typed': ty is not None,
                        'ctx': context_of(m, u)})
        elif kind == 'void-to-typed':
            used = set()
            for st in structs:
                for f in st.fields:
                    if f.default is not None and f.default[0] == 'tag':
                        used.add(f.default[1])
            cands = [(u, x) for u in unions for x in u.tags if x.type is None and x.name not in used]
            if not cands:
                continue
            u, x = cands[tape.draw(len(cands))]
            x.type = _no_self(m, g.gen_type(u.ns), u, g)
            log.append({'edit': kind, 'uid': u.uid, 'tag': x.name,
                        'nullable': m.unwrap(x.type)[1], 'ctx': context_of(m, u)})
        elif kind == 'add-subtype':
            cands = [s for s in structs if s.subtypes and not s.subtypes['closed']]
            if not cands:
                continue
            base = cands[tape.draw(len(cands))]
            name = _fresh(m, 'Sub')
            tag = _fresh(m, 'st')
            sub = Struct(name=name, ns=base.ns, parent=(base.ns, base.name), fields=[], doc=None,
                         subtypes=None, examples=[])
            sub.uid = '%s.%s' % (base.ns, name)
            nsd = m.namespaces[base.ns]
            nsd.defs.insert(nsd.defs.index(base) + 1, sub)
            for _ in range(tape.rng(0, 2)):
                fname = _fresh(m, 'nf')
                ty = g.gen_type(base.ns)
                if g.requires(ty, {(base.ns, base.name), (base.ns, name)}):
                    ty = T('nullable', inner=ty) if not m.unwrap(ty)[1] else ty
                sub.fields.append(Field(name=fname, type=ty, default=None, doc=None, anns=[]))
            if not sub.fields:
                sub.doc = ['New subtype.']
            base.subtypes['tags'].append((tag, (base.ns, name)))
            log.append({'edit': kind, 'uid': base.uid, 'subtype': sub.uid, 'ctx': context_of(m, base)})
        elif kind == 'add-route':
            nsn = tape.choice(list(m.namespaces))
            r = g.gen_route(nsn)
            r.name = _fresh(m, 'new_route')
            m.namespaces[nsn].defs.append(r)
            log.append({'edit': kind, 'ns': nsn})
        elif kind == 'rename':
            cands = [d for n in m.namespaces.values() for d in n.defs if isinstance(d, (Struct, Union, Alias))]
            d = cands[tape.draw(len(cands))]
            new = _fresh(m, 'Rn')
            rename_type(m, d, new)
            log.append({'edit': kind, 'uid': d.uid, 'to': new, 'ctx': context_of(m, d)})
        elif kind == 'introduce-alias':
            slots = [(o, h) for o, h in _iter_type_slots(m) if o[0] in ('field', 'tag')]
            if not slots:
                continue
            o, h = slots[tape.draw(len(slots))]
            ty = h.type
            inner = ty.inner if ty.kind == 'nullable' else ty
            name = _fresh(m, 'Al')
            al = Alias(name=name, ns=o[1].ns, type=copy.deepcopy(inner), doc=None, anns=[])
            al.uid = '%s.%s' % (o[1].ns, name)
            nsd = m.namespaces[o[1].ns]
            nsd.defs.insert(tape.draw(len(nsd.defs) + 1), al)
            ref = T('ref', ns=o[1].ns, name=name)
            h.type = T('nullable', inner=ref) if ty.kind == 'nullable' else ref
            log.append({'edit': kind, 'uid': o[1].uid, 'ctx': context_of(m, o[1])})
        elif kind == 'inline-alias':
            slots = []
            for o, h in _iter_type_slots(m):
                if o[0] == 'alias':
                    continue
                ty = h.type
                inner = ty.inner if ty.kind == 'nullable' else ty
                if inner.kind == 'ref' and isinstance(m.lookup(inner.ns, inner.name), Alias):
                    slots.append((o, h))
            if not slots:
                continue
            o, h = slots[tape.draw(len(slots))]
            ty = h.type
            inner = ty.inner if ty.kind == 'nullable' else ty
            al = m.lookup(inner.ns, inner.name)
            if al.ns != o[1].ns:
                continue    # the alias's expression may mention names that need another import
            new = copy.deepcopy(al.type)
            if ty.kind == 'nullable' and not m.unwrap(new)[1]:
                new = T('nullable', inner=new)
            h.type = new
            log.append({'edit': kind, 'uid': o[1].uid, 'ctx': context_of(m, o[1])})
    return m, log


def _no_self(model, ty, u, g):
    """A union member must not require a value of the union itself (no finite value would exist)."""
    if ty.kind != 'nullable' and g.requires(ty, {(u.ns, u.name)}):
        if model.unwrap(ty)[1]:
            return ty
        return T('nullable', inner=ty)
    return ty


def context_of(model, d):
    """How is the edited type reached: as union member, list item, map value, parent, subtype, field."""
    out = set()
    key = (d.ns, d.name)
    for n in model.namespaces.values():
        for x in n.defs:
            if isinstance(x, Struct):
                if x.parent and tuple(x.parent) == key:
                    out.add('parent')
                if x.subtypes and any(tuple(r) == key for _, r in x.subtypes['tags']):
                    out.add('subtype')
                for f in x.fields:
                    _ctx_type(f.type, key, 'field', out)
            elif isinstance(x, Union):
                if x.parent and tuple(x.parent) == key:
                    out.add('union-parent')
                for g in x.tags:
                    _ctx_type(g.type, key, 'member', out)
            elif isinstance(x, Route):
                for a in ('arg', 'result', 'error'):
                    _ctx_type(getattr(x, a), key, 'route', out)
    return '+'.join(sorted(out)) or 'root-only'


def _ctx_type(t, key, how, out, wrap=''):
    if t is None:
        return
    if t.kind == 'ref':
        if (t.ns, t.name) == key:
            out.add(wrap + how)
    elif t.kind == 'list':
        _ctx_type(t.item, key, how, out, 'list-')
    elif t.kind == 'map':
        _ctx_type(t.val, key, how, out, 'map-')
    elif t.kind == 'nullable':
        _ctx_type(t.inner, key, how, out, wrap)


# ----------------------------------------------------------------------------------------
# the view of a sender's value under a reader's version

class Reject(Exception):
    pass


class Unspecified(Exception):
    pass


def project(ms, mr, ts, tr, v, strict, ur=None):
    """Sender value v (set-fields form, typed ts in model ms) as the reader (type tr in model mr) must see
    it: canonical value, or Reject (strict reader meets something it does not know), or Unspecified."""
    ur = ur or by_uid(mr)
    rs, rr = ms.resolve(ts), mr.resolve(tr)
    if rr.kind == 'nullable':
        if v is None:
            return None
        return project(ms, mr, rs.inner if rs.kind == 'nullable' else rs, rr.inner, v, strict, ur)
    if rs.kind == 'nullable':
        rs = ms.resolve(rs.inner)
        if v is None:
            raise Unspecified('unset value for a type the reader does not see as nullable')
    if rr.kind == 'prim':
        return canon(mr, rr, v)
    if rr.kind == 'list':
        return [project(ms, mr, rs.item, rr.item, x, strict, ur) for x in v]
    if rr.kind == 'map':
        return {'$m': {k: project(ms, mr, rs.val, rr.val, x, strict, ur) for k, x in v['$m'].items()}}
    dr = mr.lookup(rr.ns, rr.name)
    if isinstance(dr, Struct):
        vs = ms.lookup(*v['$s'])
        target = ur.get(vs.uid)
        if target is None or not isinstance(target, Struct):
            # a subtype the reader has never heard of
            root = dr
            if strict:
                raise Reject('unknown subtype')
            if not (root.subtypes and not root.subtypes['closed']):
                raise Reject('unknown subtype and the base is not a catch-all')
            return _project_fields(ms, mr, vs, root, v, False, ur)
        if dr.subtypes and strict is False and target is not dr:
            pass
        return _project_fields(ms, mr, vs, target, v, strict, ur)
    return _project_union(ms, mr, rs, dr, v, strict, ur)


def _project_fields(ms, mr, vs, target, v, strict, ur):
    sender_fields = {f.name: f for f in ms.all_fields(vs)}
    known = mr.all_fields(target)
    names = set(f.name for f in known)
    if strict:
        for k in v['f']:
            if k not in names:
                raise Reject('field %r is unknown to the reader' % k)
    out = {}
    for f in known:
        if f.name in v['f'] and f.name in sender_fields:
            out[f.name] = project(ms, mr, sender_fields[f.name].type, f.type, v['f'][f.name], strict, ur)
        else:
            _, nullable = mr.unwrap(f.type)
            if not nullable and f.default is None and f.name not in sender_fields:
                raise Unspecified('the reader requires a field the sender does not have')
            out[f.name] = field_default(mr, f)
    return {'$s': (target.ns, target.name), 'f': out}


def _project_union(ms, mr, rs, dr, v, strict, ur):
    us = ms.lookup(*v['$u'])
    stag = [g for g in ms.all_tags(us) if g.name == v['tag']][0]
    rtags = {g.name: g for g in mr.all_tags(dr)}
    if v['tag'] not in rtags:
        if strict or dr.closed:
            raise Reject('tag %r is unknown to the reader' % v['tag'])
        return {'$u': 'union', 'tag': CATCH_ALL, 'val': None}
    rt = rtags[v['tag']]
    on_wire = v['val'] is not None
    if on_wire and stag.type is not None:
        inner, nullable = ms.unwrap(stag.type)
        if inner.kind == 'ref' and isinstance(v['val'], dict) and '$s' in v['val'] and not v['val']['f']:
            d = ms.lookup(inner.ns, inner.name)
            if isinstance(d, Struct) and not d.subtypes:
                on_wire = False     # a flattened struct with nothing set adds no key to the message
    if rt.type is None:
        if on_wire and strict:
            raise Reject('payload on a tag that is Void for the reader')
        return {'$u': 'union', 'tag': v['tag'], 'val': None}
    if stag.type is None:
        if mr.unwrap(rt.type)[1]:
            return {'$u': 'union', 'tag': v['tag'], 'val': None}
        raise Unspecified('the reader gave a Void tag a non-nullable type')
    if v['val'] is None:
        return {'$u': 'union', 'tag': v['tag'], 'val': None}
    rinner, rnullable = mr.unwrap(rt.type)
    val = project(ms, mr, stag.type, rt.type, v['val'], strict, ur)
    if rnullable and isinstance(v['val'], dict) and '$s' in v['val'] and not v['val']['f'] \
            and rinner.kind == 'ref' and not mr.lookup(rinner.ns, rinner.name).subtypes:
        val = None
    return {'$u': 'union', 'tag': v['tag'], 'val': val}
