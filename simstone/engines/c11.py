"""C11 - meaning does not depend on file order, definition order, layout or delivery.

One run = one spec model, its reference layout, and several delivery schedules of the same
definitions.  Every schedule goes through the real stone.cli.main() under SimFS (argv files,
--recursive directory with shuffled listing, or chunked stdin) and must get the same verdict,
the same canonical API signature and the same backend bytes as the reference layout.
"""
import difflib
import json
import os
import sys

from .. import VERIF
from ..driver import Engine, new_result, bump
from ..simfs import SimFS, scratch_dir, rm_scratch, write_file, read_tree, _real
from .. import specgen, backends, layout

SIG_BACKEND = os.path.join(VERIF, 'simstone', 'sig_backend.stoneg.py')


def inject_error(tape, model):
    """Add one rule violation whose detection involves two definitions.  -> label"""
    names = list(model.namespaces)
    ns = model.namespaces[tape.choice(names)]
    kind = tape.choice(['nullable-alias', 'duplicate', 'patch-no-target', 'extends-alias',
                        'undefined-type'])
    raw = getattr(model, 'raw_chunks', None)
    if raw is None:
        raw = model.raw_chunks = {}
    chunks = raw.setdefault(ns.name, [])
    if kind == 'nullable-alias':
        chunks.append(['alias ZzFirst = ZzSecond?'])
        chunks.append(['alias ZzSecond = String?'])
    elif kind == 'duplicate':
        types = [d for d in ns.defs if isinstance(d, (specgen.Struct, specgen.Union, specgen.Alias))]
        nm = types[tape.draw(len(types))].name if types else 'ZzDup'
        if not types:
            chunks.append(['struct ZzDup', '    a Int32'])
        chunks.append(['struct %s' % nm, '    zz_other Int32'])
    elif kind == 'patch-no-target':
        chunks.append(['patch struct ZzNowhere', '    a Int32'])
    elif kind == 'extends-alias':
        chunks.append(['alias ZzAl = ZzBase'])
        chunks.append(['struct ZzBase', '    a Int32'])
        chunks.append(['struct ZzChild extends ZzAl', '    b Int32'])
    else:
        chunks.append(['struct ZzUser', '    a ZzMissing'])
    return kind


class C11Engine(Engine):
    property_id = 'C11'
    name = 'c11'
    level = 'exploration'
    unit_cap = 600
    det_sample = 4
    rule = ('a run generates one spec model (10% carry one injected rule violation involving two '
            'definitions) and 4-10 delivery schedules of the same definitions: split of each namespace over '
            '1-6 files, file order, definition order, imports placed in any file of the namespace, noise '
            '(comment / blank / whitespace-only lines, trailing blanks and comments), line endings (LF / CRLF / '
            'mixed), parenthesised lists '
            'broken over continuation lines, and the channel (argv files, --recursive directory with '
            'shuffled listing order, concatenation on stdin delivered in short reads). Every schedule runs '
            'through the real CLI and is compared with the reference layout: verdict, canonical API '
            'signature, bytes of 2-3 built-in backends. Distinct = schedule shape (channel x '
            'files-per-namespace vector x noise x continuation lines) x outcome; single-file noise-free '
            'schedules identical to the reference are trivial and not counted.')
    real_components = ['stone.cli.main (argument handling, file/stdin reading, --recursive walk)',
                       'lexer, parser, IR generator', 'built-in backends (sampled per run)']
    stub_components = ['SimFS (scratch tree, directory listing order)', 'argv', 'stdin raw stream with short reads']
    assumptions = ['fields, tags and examples are never permuted (documented order)',
                   'the namespace doc is placed in exactly one file of the namespace',
                   'a byte difference is reported only if it persists across repeated in-process runs '
                   'with perturbed heaps (address-order instability belongs to C12)']
    expected_probes = ['eol_crlf', 'eol_mixed', 'doc_law_checked', 'channel_argv', 'channel_recursive', 'channel_stdin', 'multi_file_namespace',
                       'noise_lines', 'continuation_lines', 'error_model', 'backend_bytes_compared',
                       'listing_order_differs']

    def prepare(self):
        from .. import runcli, apisig  # noqa
        import importlib
        for b in backends.BACKENDS:
            importlib.import_module('stone.backends.' + b)

    def plan(self, tier):
        if tier == 'smoke':
            return [('model', 6, 2)]
        if tier == 'thorough':
            return [('model', 12000, 8)]
        return [('model', 700, 4)]

    # ------------------------------------------------------------------
    def run(self, tape, kind):
        res = new_result()
        scratch = scratch_dir('c11')
        cwd0 = os.getcwd()
        try:
            self._run(tape, res, scratch)
        finally:
            os.chdir(cwd0)
            rm_scratch(scratch)
        from .c18 import scrub
        scrub(res, scratch)
        return res

    def _deliver(self, scratch, tag, files, channel, tape, backend_spec, read_sizes=None):
        """Run the CLI once.  -> dict(status, err, sig, tree, listing_differs)"""
        from ..runcli import run_cli
        sigmod = sys.modules.get('sig_backend_stoneg_py')
        d = os.path.join(scratch, tag)
        specdir = os.path.join(d, 'specs')
        outdir = os.path.join(d, 'out')
        _real['makedirs'](outdir)
        for fn, txt in files:
            write_file(os.path.join(specdir, fn), txt)
        backend, cli, bargs, place = backend_spec
        for fn, txt in place.items():
            write_file(os.path.join(outdir, fn), txt)
        listing = {'differs': False}

        def order(names, where):
            if tape is None:
                return names
            out = tape.shuffle(names)
            if out != names:
                listing['differs'] = True
            return out
        stdin = None
        sizes = None
        if channel == 'argv':
            specs = [os.path.join(specdir, fn) for fn, _ in files]
        elif channel == 'recursive':
            specs = [specdir]
            cli = ['--recursive'] + cli
        else:
            specs = []
            stdin = ''.join(txt if txt.endswith('\n') else txt + '\n' for _, txt in files).encode('utf-8')
            if read_sizes:
                sizes = lambda: read_sizes  # noqa
        argv = cli + [backend, outdir] + specs + ((['--'] + bargs) if bargs else [])
        fs = SimFS(scratch, order=order)
        os.chdir(d)
        with fs:
            st, out, err, exc, _ = run_cli(argv, stdin_bytes=stdin, read_sizes=sizes)
        sig = None
        if backend == SIG_BACKEND:
            mod = sys.modules.get('sig_backend_stoneg_py')
            if mod is not None:
                sig = mod.RESULT.pop('sig', None)
        tree = read_tree(outdir)
        for fn in place:
            tree.pop(fn, None)
        return {'status': st, 'err': err, 'exc': exc, 'sig': sig, 'tree': tree,
                'listing_differs': listing['differs'], 'calls': fs.calls}

    def _run(self, tape, res, scratch):
        ev = res['events']
        viol = res['violations']
        cfg = specgen.Cfg(max_ns=3, max_types=6, tag_annotations=True, alias_bias=tape.chance(50),
                          nullable_alias_pct=25, alias_ref_pct=30, deep_inherit_pct=40)
        model = specgen.gen_model(tape, cfg)
        err_kind = None
        if tape.chance(10):
            err_kind = inject_error(tape, model)
            bump(res['probes'], 'error_model')
        ref_files = specgen.render_reference(model)
        if err_kind:
            # the reference layout of an error model: raw chunks appended to the namespace's main file
            extra = model.raw_chunks
            ref_files = [(fn, txt + ''.join('\n' + '\n'.join(c) + '\n' for c in extra.get(fn[:-6], [])))
                         for fn, txt in ref_files]
        sig_spec = (SIG_BACKEND, ['-a', ':all'] if model.cfg is not None else [], [], {})
        # backends whose bytes are compared in this run
        chosen = []
        for b in tape.sample(backends.BACKENDS, tape.rng(2, 3)):
            sets = [s for s in backends.option_sets(b) if model.cfg is not None or '-a' not in s[1]]
            if sets:
                s = sets[tape.draw(len(sets))]
                chosen.append((b, s[1], s[2], s[3]))
        res['artefacts']['reference'] = {fn: txt for fn, txt in ref_files}
        res['trace'].append({'error_model': err_kind, 'backends': [c[0] for c in chosen]})
        ev.append('model files=%s err=%s backends=%s' % ([fn for fn, _ in ref_files], err_kind,
                                                         [c[0] for c in chosen]))

        ref = self._deliver(scratch, 'ref', ref_files, 'argv', None, sig_spec)
        res['steps'] += 1
        ref_ok = ref['status'] == 0
        if ref['exc'] is not None:
            # a foreign exception on the reference layout is C03's business; nothing to compare
            res['rejected'] = True
            ev.append('reference raised %s' % type(ref['exc']).__name__)
            return
        if not ref_ok and not err_kind:
            res['rejected'] = True
        ev.append('reference status=%r %s' % (ref['status'], (ref['err'].strip().split('\n') or [''])[-1][:200]))
        ref_trees = {}
        if ref_ok:
            for i, bs in enumerate(chosen):
                r = self._deliver(scratch, 'refb%d' % i, ref_files, 'argv', None, bs)
                ref_trees[i] = (r['status'], r['tree'])
                res['steps'] += 1

        if ref_ok and not err_kind:
            self._doc_law(tape, model, res)
        nsched = tape.rng(4, 10)
        main_tape = tape
        sch = None
        for si in range(nsched):
            tape = main_tape.fork('s%d' % si)       # one independent segment per schedule
            if tape.absent:
                continue
            sch = layout.make_schedule(tape, model)
            bump(res['probes'], 'channel_' + sch.channel)
            if max(sch.shape['files_per_ns']) > 1:
                bump(res['probes'], 'multi_file_namespace')
            if sch.shape['noise']:
                bump(res['probes'], 'noise_lines', sch.shape['noise'])
            if sch.shape.get('eol', 'lf') != 'lf':
                bump(res['probes'], 'eol_' + sch.shape['eol'])
            if sch.shape['multiline']:
                bump(res['probes'], 'continuation_lines')
            tag = 's%d' % si
            ev.append('schedule %d %s' % (si, json.dumps(sch.shape, sort_keys=True)))
            for fn, txt in sch.files:
                ev.append('file %s %d' % (fn, len(txt)))
            r = self._deliver(scratch, tag, sch.files, sch.channel, tape, sig_spec, sch.read_sizes)
            res['steps'] += 1
            if r['listing_differs']:
                bump(res['probes'], 'listing_order_differs')
            ok = r['status'] == 0
            outcome = 'same'
            art = {'schedule': si, 'channel': sch.channel, 'files': {fn: txt for fn, txt in sch.files}}
            if r['exc'] is not None:
                outcome = 'exc'
                viol.append({'class': 'verdict', 'key': 'foreign-exception:%s' % type(r['exc']).__name__,
                             'detail': 'schedule %d raised %r while the reference layout %s' % (
                                 si, r['exc'], 'compiles' if ref_ok else 'is refused')})
                res['artefacts']['failing'] = art
            elif ok != ref_ok:
                outcome = 'verdict'
                last = (r['err'].strip().split('\n') or [''])[-1][:300]
                lastref = (ref['err'].strip().split('\n') or [''])[-1][:300]
                import re as _re
                slug = _re.sub(r"'[^']*'", "'X'", (last if not ok else lastref).split('error: ')[-1])[:80]
                viol.append({'class': 'verdict', 'key': '%s:%s' % ('accepts' if ok else 'refuses', slug),
                             'detail': 'reference layout %s but schedule %d (%s) %s: %s | ref: %s' % (
                                 'compiles' if ref_ok else 'is refused', si, layout.shape_key(sch),
                                 'compiles' if ok else 'is refused', last, lastref)})
                res['artefacts']['failing'] = art
            elif ok:
                if r['sig'] != ref['sig']:
                    outcome = 'sig'
                    from .. import apisig
                    diff = apisig.first_difference(ref['sig'], r['sig'])
                    import re
                    where = re.sub(r'\[[^\]]*\]', '[]', (diff or '').split(':')[0])
                    viol.append({'class': 'signature', 'key': '%s' % where,
                                 'detail': 'schedule %d (%s): %s' % (si, layout.shape_key(sch), diff)})
                    res['artefacts']['failing'] = art
                elif chosen and tape.chance(50):
                    for i, bs in enumerate(chosen):
                        rb = self._deliver(scratch, '%sb%d' % (tag, i), sch.files, sch.channel, tape, bs,
                                           sch.read_sizes)
                        res['steps'] += 1
                        bump(res['probes'], 'backend_bytes_compared')
                        rs, rt = ref_trees[i]
                        if rb['status'] != rs or rb['tree'] != rt:
                            if not self._confirm(scratch, tag, i, bs, ref_files, sch, tape):
                                bump(res['probes'], 'unstable_artefacts')
                                continue
                            outcome = 'bytes'
                            names = sorted(set(rt) | set(rb['tree']))
                            bad = [n for n in names if rt.get(n) != rb['tree'].get(n)]
                            first = bad[0] if bad else '(exit status)'
                            a = (rt.get(first) or b'').decode('utf-8', 'replace').splitlines()
                            b = (rb['tree'].get(first) or b'').decode('utf-8', 'replace').splitlines()
                            diff = '\n'.join(list(difflib.unified_diff(a, b, 'reference', 'schedule', n=1,
                                                                       lineterm=''))[:24])
                            viol.append({'class': 'bytes', 'key': '%s:%s' % (bs[0], os.path.splitext(first)[1]),
                                         'detail': 'schedule %d (%s): backend %s output differs in %r (status %r/%r)\n%s' % (
                                             si, layout.shape_key(sch), bs[0], first, rs, rb['status'], diff)})
                            res['artefacts']['failing'] = art
            ev.append('schedule %d outcome=%s status=%r' % (si, outcome, r['status']))
            trivial = (sch.shape['nfiles'] == len(ref_files) and not sch.shape['noise']
                       and not sch.shape['multiline'] and sch.channel == 'argv')
            if not trivial:
                res['states'].append('%s|%s|%s' % (layout.shape_key(sch), 'err' if err_kind else 'ok', outcome))
        res['sample'] = {'files': [fn for fn, _ in ref_files], 'error_model': err_kind,
                         'schedules': nsched, 'backends': [c[0] for c in chosen],
                         'last_schedule': sch.shape if sch is not None else None}

    def _doc_law(self, tape, model, res):
        """The one documented file-order dependence: namespace docs concatenate in file order."""
        from stone.frontend.frontend import specs_to_ir
        from stone.frontend.exception import InvalidSpec
        ns = list(model.namespaces.values())[tape.draw(len(model.namespaces))]
        saved = ns.doc
        try:
            ns.doc = None
            rest = specgen.render_reference(model)
        finally:
            ns.doc = saved
        docs = [tape.choice(['First part of the doc.', 'About {braces} and %s.', 'Alpha.', 'Zulu comes first?']),
                tape.choice(['Second part.', 'Beta: more text here.', 'Another paragraph, naïve.']),
                'Third.'][:tape.rng(2, 3)]
        parts = [('doc%d_%s.stone' % (i, ns.name), 'namespace %s\n    "%s"\n' % (ns.name, d))
                 for i, d in enumerate(docs)]
        order = tape.shuffle(list(range(len(parts))))
        try:
            single = []
            for p in parts:
                api = specs_to_ir([p] + rest)
                single.append(api.namespaces[ns.name].doc)
            api = specs_to_ir([parts[i] for i in order] + rest)
            got = api.namespaces[ns.name].doc
            api2 = specs_to_ir(rest[:1] + [parts[i] for i in order] + rest[1:])
            got2 = api2.namespaces[ns.name].doc
        except InvalidSpec:
            return
        want = ''.join(single[i] for i in order)
        res['events'].append('doc-law order=%r ok=%s' % (order, got == want))
        bump(res['probes'], 'doc_law_checked')
        if got != want or got2 != want:
            res['violations'].append({
                'class': 'doc-order', 'key': 'namespace-doc-concatenation',
                'detail': 'namespace docs of files in order %r: got %r / %r, expected the per-file docs '
                          'concatenated in file order %r' % (order, got, got2, want)})

    def _confirm(self, scratch, tag, i, bs, ref_files, sch, tape):
        """A byte difference counts only if both layouts are stable under heap perturbation."""
        ref_seen, sch_seen = set(), set()
        junk = []
        for k in range(3):
            junk.append([object() for _ in range(1000 * (k + 1))])
            a = self._deliver(scratch, '%s_cr%d_%d' % (tag, i, k), ref_files, 'argv', None, bs)
            b = self._deliver(scratch, '%s_cs%d_%d' % (tag, i, k), sch.files, sch.channel, None, bs,
                              sch.read_sizes)
            ref_seen.add(json.dumps(sorted((n, v.hex()) for n, v in a['tree'].items())))
            sch_seen.add(json.dumps(sorted((n, v.hex()) for n, v in b['tree'].items())))
        del junk
        return len(ref_seen) == 1 and len(sch_seen) == 1 and ref_seen != sch_seen
