"""C03 - compilation of arbitrary text ends in an API description or a spec error.

The disk and the pipe between the spec author and the compiler are simulated: valid specs (generated
models under a random delivery schedule, and the language reference's own snippets) are damaged by
1-3 storage/transport faults (torn, lost, duplicated, misdirected, reordered writes, bit rot,
indentation shear, garbage files, short reads on stdin) and then compiled, either by calling the
frontend directly or through the real CLI under SimFS.
"""
import os
import re
import signal
import traceback

from .. import REPO
from ..driver import Engine, new_result, bump
from ..simfs import SimFS, scratch_dir, rm_scratch, write_file
from .. import specgen, layout

TOKEN_RE = re.compile(r'''
    (?P<comment>\#[^\n]*)
  | (?P<string>"(?:[^"\\]|\\.)*")
  | (?P<float>-?\d+\.\d+(?:[eE]-?\d+)?)
  | (?P<int>-?\d+)
  | (?P<id>[A-Za-z_][A-Za-z0-9_/]*)
  | (?P<nl>\n[ \t]*)
  | (?P<ws>[ \t]+)
  | (?P<punct>[()\[\]{},=?:.@*])
  | (?P<other>.)
''', re.X | re.S)

ALPHABET = ['struct', 'union', 'union_closed', 'route', 'alias', 'namespace', 'import', 'extends',
            'patch', 'annotation', 'annotation_type', 'attrs', 'example', 'deprecated', 'by',
            'String', 'Int32', 'List', 'Map', 'Void', 'null', 'true', 'false', 'x', 'Foo', 'a.B',
            '(', ')', '[', ']', '{', '}', ',', '=', '?', ':', '.', '@', '*', '"s"', '""', '"', '1',
            '-1', '1.5', '1e3', '\n', '\n    ', '\n        ', ' ', '#', '\\', "'", '\t', '\r', '\x00',
            'é', '\U0001F600', '-', '+', '/', '%', '&', ';', '<', '>', '!', '~', '$', '|', '^', '`']
STRAY = ['\t', '\r', '\x00', 'é', '\U0001F600', '"', "'", '{', '}', '(', ')', '[', ']', '\\', ';', '`',
         '\x0b', '﻿', ' ', '*', '?', '=', ',', ':', '@', '#', '.', '-', '0']


def tokens(text):
    return [(m.start(), m.end(), m.lastgroup) for m in TOKEN_RE.finditer(text)]


def lang_ref_snippets():
    path = os.path.join(REPO, 'docs', 'lang_ref.rst')
    try:
        with open(path, encoding='utf-8') as f:
            lines = f.read().split('\n')
    except OSError:
        return []
    out = []
    i = 0
    while i < len(lines):
        if lines[i].rstrip().endswith('::'):
            j = i + 1
            block = []
            while j < len(lines) and (not lines[j].strip() or lines[j].startswith('    ') or lines[j].startswith('   ')):
                block.append(lines[j])
                j += 1
            text = '\n'.join(block).strip('\n')
            if text.strip():
                ind = min(len(ln) - len(ln.lstrip(' ')) for ln in text.split('\n') if ln.strip())
                text = '\n'.join(ln[ind:] for ln in text.split('\n')) + '\n'
                if re.search(r'\b(struct|union|route|alias|namespace|annotation)\b', text):
                    out.append(text)
            i = j
        else:
            i += 1
    return out


class Timeout(Exception):
    pass


def _alarm(signum, frame):
    raise Timeout()


def stone_frame(exc):
    """innermost frame inside the stone package -> 'relative/file.py:function'"""
    tb = traceback.extract_tb(exc.__traceback__)
    key = None
    for fr in tb:
        fn = fr.filename.replace('\\', '/')
        if '/stone/' in fn and '/simstone/' not in fn:
            key = 'stone/%s:%s' % (fn.split('/stone/')[-1], fr.name)
    return key or (tb[-1].filename.split('/')[-1] + ':' + tb[-1].name if tb else '?')


class C03Engine(Engine):
    property_id = 'C03'
    name = 'c03'
    level = 'fault_enumeration'
    unit_cap = 400
    det_sample = 8
    rule = ('a run takes a valid spec set (a generated model under a random delivery schedule, or snippets '
            'of docs/lang_ref.rst) and applies 1-3 storage/transport faults to the bytes the compiler will '
            'read, positioned at byte and at token granularity by a harness-side scanner: torn write '
            '(truncate), lost write (delete span/token/line), duplicated write, misdirected write (splice '
            'from another file), reordered write (swap tokens/lines), bit rot (replace a char, change a '
            "literal's kind, insert a stray character), indentation shear, garbage file (<=6 tokens after a "
            'namespace header), short reads on stdin, or one well-formed but wrong name at a semantic site '
            '(identifier confusion), a definition written twice, or no fault at all (5%). Compiled through '
            'specs_to_ir or through the real CLI (argv with paths spelled as a user might, or stdin). Where '
            'the verdict is beyond doubt it is demanded (surely invalid -> refused, undamaged -> compiles). '
            'Distinct = (fault kind, token class at the fault site, outcome class incl. the '
            'stone raise site reached); runs whose faults left the text unchanged are trivial.')
    real_components = ['stone lexer, parser, IR generator (specs_to_ir)', 'stone.cli.main (file and stdin '
                       'reading, error printing, exit status)', 'python_types backend when compilation succeeds']
    stub_components = ['fault plan over the stored/streamed bytes', 'SimFS scratch tree',
                       'stdin raw stream with short reads']
    assumptions = ['damage that makes a file undecodable as UTF-8 is outside the property ("any text") and is '
                   'not generated', 'which message or line number is reported is not judged',
                   'BackendException after a successful compile is not a C03 matter']
    expected_probes = ['surely_invalid_input', 'surely_invalid_unresolvable-name', 'surely_invalid_duplicate-definition', 'surely_valid_input', 'outcome_api', 'outcome_invalidspec', 'via_cli', 'via_stdin', 'lang_ref_snippet',
                       'garbage_file', 'fault_fired']

    def prepare(self):
        from .. import runcli  # noqa
        import stone.backends.python_types  # noqa
        self.snippets = lang_ref_snippets()

    def plan(self, tier):
        if tier == 'smoke':
            return [('damage', 200, 50)]
        if tier == 'thorough':
            return [('damage', 500000, 1000)]
        return [('damage', 30000, 250)]

    # ------------------------------------------------------------------
    def _fault(self, tape, files, idx, res):
        """Apply one fault to files[idx] (list of [name, text]); returns a description."""
        name, text = files[idx]
        toks = tokens(text)
        lines = text.split('\n')
        kind = tape.weighted([(16, 'torn'), (14, 'lost'), (10, 'dup'), (8, 'misdirected'), (10, 'reorder'),
                              (18, 'bitrot'), (8, 'shear'), (8, 'literal'), (8, 'stray'), (12, 'swap-in'),
                              (8, 'illegal-char')])
        site = '-'

        def tok_at(pos):
            for s, e, k in toks:
                if s <= pos < e:
                    return k
            return 'eof'
        if not text:
            kind = 'stray'
        if kind == 'torn':
            if toks and tape.chance(60):
                s, e, k = toks[tape.draw(len(toks))]
                pos = s if tape.chance(50) else min(len(text), s + 1 + tape.draw(max(1, e - s)))
            else:
                pos = tape.draw(len(text) + 1)
            site = tok_at(pos)
            text = text[:pos]
        elif kind == 'lost':
            g = tape.draw(3)
            if g == 0 and toks:
                s, e, k = toks[tape.draw(len(toks))]
                site = k
                text = text[:s] + text[e:]
            elif g == 1 and len(lines) > 1:
                i = tape.draw(len(lines))
                site = 'line'
                del lines[i]
                text = '\n'.join(lines)
            else:
                a = tape.draw(len(text) + 1)
                b = min(len(text), a + tape.rng(1, 12))
                site = tok_at(a)
                text = text[:a] + text[b:]
        elif kind == 'dup':
            g = tape.draw(3)
            if g == 0 and toks:
                s, e, k = toks[tape.draw(len(toks))]
                site = k
                text = text[:e] + text[s:e] + text[e:]
            elif g == 1:
                i = tape.draw(len(lines))
                site = 'line'
                lines.insert(i, lines[i])
                text = '\n'.join(lines)
            else:
                a = tape.draw(len(text) + 1)
                b = min(len(text), a + tape.rng(1, 40))
                site = tok_at(a)
                text = text[:b] + text[a:b] + text[b:]
        elif kind == 'misdirected':
            other = files[tape.draw(len(files))][1] if len(files) > 1 else text
            if tape.chance(30) and self.snippets:
                other = self.snippets[tape.draw(len(self.snippets))]
            a = tape.draw(len(other) + 1)
            b = min(len(other), a + tape.rng(1, 80))
            pos = tape.draw(len(text) + 1)
            site = tok_at(pos)
            text = text[:pos] + other[a:b] + (text[pos + (b - a):] if tape.chance(50) else text[pos:])
        elif kind == 'reorder':
            if tape.chance(50) and len(toks) > 1:
                i = tape.draw(len(toks))
                j = tape.draw(len(toks))
                i, j = min(i, j), max(i, j)
                if i != j:
                    si, ei, ki = toks[i]
                    sj, ej, kj = toks[j]
                    site = ki
                    text = text[:si] + text[sj:ej] + text[ei:sj] + text[si:ei] + text[ej:]
            elif len(lines) > 1:
                i = tape.draw(len(lines))
                j = tape.draw(len(lines))
                site = 'line'
                lines[i], lines[j] = lines[j], lines[i]
                text = '\n'.join(lines)
        elif kind == 'illegal-char':
            # a character no token of the language can contain, placed outside strings and comments:
            # whatever else is true of the text, it cannot be a valid spec any more
            outside = [t_ for t_ in toks if t_[2] not in ('string', 'comment')]
            if outside:
                s0, e0, k0 = outside[tape.draw(len(outside))]
                pos = s0 if tape.chance(50) else e0
                inside_str = any((a < pos < b) or (c == 'comment' and a < pos <= b)
                                 for a, b, c in toks if c in ('string', 'comment'))
                if not inside_str:
                    site = 'sure:' + k0
                    text = text[:pos] + tape.choice(['\x00', '`', '~', ';', '$', '!', '&', '^', '|', '<', '>']) + text[pos:]
        elif kind == 'swap-in':
            # a token-sized misdirected write: a token is overwritten by a token of the same class
            # (identifier, number, string) from elsewhere in this or another file
            cands = [t_ for t_ in toks if t_[2] in ('id', 'int', 'float', 'string')]
            if cands and tape.chance(60):
                # line first, then a token on it: short lines (example and attrs lines, tags) get the
                # same attention as long ones
                starts = [0]
                for ln in lines:
                    starts.append(starts[-1] + len(ln) + 1)
                li = tape.draw(len(lines))
                on_line = [t_ for t_ in cands if starts[li] <= t_[0] < starts[li + 1]]
                if on_line:
                    cands = on_line
            if cands:
                s0, e0, k0 = cands[tape.draw(len(cands))]
                src_text = files[tape.draw(len(files))][1] if tape.chance(30) else text
                src = [(a, b) for a, b, c in tokens(src_text) if c == k0 or
                       (k0 in ('int', 'float') and c in ('int', 'float'))]
                if src:
                    near = [x for x in src if abs(x[0] - s0) < 400] if src_text is text else []
                    pool = near if near and tape.chance(70) else src
                    a, b = pool[tape.draw(len(pool))]
                    site = k0
                    text = text[:s0] + src_text[a:b] + text[e0:]
        elif kind == 'bitrot':
            if toks and tape.chance(60):
                s, e, k = toks[tape.draw(len(toks))]
                site = k
                text = text[:s] + tape.choice(ALPHABET) + text[e:]
            elif text:
                pos = tape.draw(len(text))
                site = tok_at(pos)
                text = text[:pos] + tape.choice(STRAY + ['a', 'Z', '0', ' ']) + text[pos + 1:]
        elif kind == 'shear':
            i = tape.draw(len(lines))
            d = tape.rng(1, 7)
            site = 'line'
            if tape.chance(50):
                lines[i] = ' ' * d + lines[i]
            else:
                lines[i] = lines[i][min(d, len(lines[i]) - len(lines[i].lstrip(' '))):]
            if tape.chance(20):
                lines[i] = lines[i].replace('    ', '\t', 1)
            text = '\n'.join(lines)
        elif kind == 'literal':
            lits = [t for t in toks if t[2] in ('string', 'int', 'float') or
                    (t[2] == 'id' and text[t[0]:t[1]] in ('true', 'false', 'null'))]
            if lits:
                s, e, k = lits[tape.draw(len(lits))]
                site = k
                new = tape.choice(['"text"', '0', '-1', '1.5', 'true', 'null', '99999999999999999999999',
                                   '1e400', '""', 'some_id', '-0.0', '"\\"', '[]', '{}', '1.', '.5', '0x10',
                                   '"%Z"', '"["', '"(?P<x"', '1e3'])
                text = text[:s] + new + text[e:]
        else:
            pos = tape.draw(len(text) + 1)
            site = tok_at(pos)
            text = text[:pos] + tape.choice(STRAY) + text[pos:]
        files[idx][1] = text
        bump(res['faults'], kind)
        return kind, site

    def run(self, tape, kind):
        res = new_result()
        ev = res['events']
        t = tape
        # ---- workload ------------------------------------------------------------------------
        src = t.weighted([(70, 'model'), (18, 'snippet'), (12, 'garbage')])
        confused = None
        channel = 'argv'
        read_sizes = None
        if src == 'model':
            cfg = specgen.Cfg(max_ns=t.rng(1, 2), max_types=t.rng(1, 5), tag_annotations=True, nullable_alias_pct=25, alias_ref_pct=30,
                              nested_label_lists=True)
            model = specgen.gen_model(t, cfg)
            dupdef = None
            how = t.weighted([(35, 'confuse'), (4, 'dup-def'), (5, 'none'), (56, 'damage')])
            if how == 'confuse':
                from .. import confuse
                what = confuse.confuse(t, model)
                if what:
                    confused = what
                    bump(res['faults'], 'confuse')
            elif how == 'dup-def':
                # a whole definition written twice (duplicated write of a block) can never compile
                import copy
                cands = [(n, d) for n in model.namespaces.values() for d in n.defs
                         if isinstance(d, (specgen.Struct, specgen.Union, specgen.Alias, specgen.Route))]
                if cands:
                    n, d = cands[t.draw(len(cands))]
                    n.defs.append(copy.deepcopy(d))
                    dupdef = '%s %s.%s' % (type(d).__name__, n.name, d.name)
                    bump(res['faults'], 'dup-def')
            sch = layout.make_schedule(t, model, eols=False)
            files = [[fn.replace('/', '_'), txt] for fn, txt in sch.files]
            channel = 'argv' if sch.channel == 'recursive' else sch.channel
            read_sizes = sch.read_sizes
        elif src == 'snippet':
            bump(res['probes'], 'lang_ref_snippet')
            files = []
            for i in range(t.rng(1, 2)):
                s = self.snippets[t.draw(len(self.snippets))] if self.snippets else 'namespace a\n'
                if not s.lstrip().startswith('namespace') and t.chance(80):
                    s = 'namespace snip%d\n\n' % i + s
                files.append(['snip%d.stone' % i, s])
        else:
            bump(res['probes'], 'garbage_file')
            body = ' '.join(t.choice(ALPHABET) for _ in range(t.rng(0, 6)))
            if t.chance(50):
                body = ''.join(t.choice(ALPHABET) for _ in range(t.rng(0, 6)))
            files = [['g.stone', 'namespace g\n' + body + ('\n' if t.chance(70) else '')]]
        original = [f[1] for f in files]
        nfaults = t.rng(1, 3) if src != 'garbage' else t.rng(0, 1)
        applied = []
        if confused:
            nfaults = t.rng(0, 1)
            applied.append(('confuse', confused.lstrip('!').split(' ')[0], '-'))
        elif src == 'model' and dupdef:
            nfaults = 0
            applied.append(('dup-def', dupdef.split(' ')[0], '-'))
        elif src == 'model' and how == 'none':
            nfaults = 0
        for _ in range(nfaults):
            idx = t.draw(len(files))
            applied.append(self._fault(t, files, idx, res) + (files[idx][0],))
        changed = [f[1] for f in files] != original or bool(confused) or (src == 'model' and bool(dupdef))
        if changed:
            bump(res['probes'], 'fault_fired')
        mode = t.weighted([(55, 'direct'), (30, 'cli'), (15, 'stdin')])
        if channel == 'stdin':
            mode = 'stdin'
        for fn, txt in files:
            ev.append('file %s %r' % (fn, txt))
        ev.append('faults %r mode=%s' % (applied, mode))
        res['trace'] = [{'source': src, 'mode': mode, 'faults': [list(a) for a in applied], 'confused': confused}]
        res['artefacts']['specs'] = {fn: txt for fn, txt in files}

        sure_invalid = None
        if src == 'model' and len(applied) == 1:
            if not confused and applied[0][0] == 'illegal-char' and str(applied[0][1]).startswith('sure:'):
                sure_invalid = ('illegal-character', 'a character that no token can contain was inserted '
                                                     'outside strings and comments')
            elif confused and confused.startswith('!'):
                sure_invalid = ('unresolvable-name', 'a reference was replaced by a name that is defined nowhere, or by the alias itself '
                                                  '(%s)' % confused[1:])
            elif applied[0][0] == 'dup-def':
                sure_invalid = ('duplicate-definition', 'a whole definition was written twice (%s)' % applied[0][1])
        # ---- execute ------------------------------------------------------------------------------
        old = signal.signal(signal.SIGALRM, _alarm)
        signal.alarm(30)
        outcome, detail = None, None
        try:
            if mode == 'direct':
                outcome, detail = self._direct(files)
            else:
                # a definite verdict is only expected of files that each end with a newline (on stdin a
                # missing one glues the next file's first line to a comment or a field)
                outcome, detail = self._cli(files, mode, read_sizes, t, res,
                                            ensure_nl=not applied or sure_invalid is not None)
        except Timeout:
            outcome, detail = 'timeout', 'did not finish within 30 s'
        finally:
            signal.alarm(0)
            signal.signal(signal.SIGALRM, old)
        ev.append('outcome %s %s' % (outcome, detail if outcome not in ('api', 'invalidspec') else ''))
        res['steps'] += 1 + len(applied)
        if sure_invalid:
            bump(res['probes'], 'surely_invalid_input')
            bump(res['probes'], 'surely_invalid_' + sure_invalid[0])
        if outcome == 'api' and sure_invalid:
            res['violations'].append({'class': 'accepted-damaged', 'key': '%s:%s' % (sure_invalid[0], mode),
                                      'detail': '%s, yet compilation succeeded (%s)' % (sure_invalid[1], detail)})
        if src == 'model' and not applied:
            bump(res['probes'], 'surely_valid_input')
            if outcome == 'invalidspec':
                res['violations'].append({'class': 'refused-valid', 'key': mode,
                                          'detail': 'an undamaged generated spec was refused: %s' % detail})
        if outcome == 'api':
            bump(res['probes'], 'outcome_api')
        elif outcome == 'invalidspec':
            bump(res['probes'], 'outcome_invalidspec')
        elif outcome == 'timeout':
            res['violations'].append({'class': 'non-termination', 'key': mode, 'detail': detail})
        else:
            res['violations'].append({'class': outcome[0], 'key': outcome[1], 'detail': detail})
        if changed or src == 'garbage':
            okey = outcome if isinstance(outcome, str) else '%s:%s' % outcome
            for k, site, _ in applied or [('none', '-', '')]:
                res['states'].append('%s|%s|%s|%s' % (k, site, mode if mode != 'cli' else 'cli', okey))
        res['sample'] = {'source': src, 'mode': mode, 'faults': [list(a) for a in applied],
                         'outcome': outcome if isinstance(outcome, str) else list(outcome),
                         'first_file_head': files[0][1][:160]}
        return res

    # ------------------------------------------------------------------
    def _direct(self, files):
        from stone.frontend.frontend import specs_to_ir
        from stone.frontend.exception import InvalidSpec
        paths = [fn for fn, _ in files]
        try:
            api = specs_to_ir([(fn, txt) for fn, txt in files])
        except InvalidSpec as e:
            bad = self._check_invalidspec(e, paths)
            if bad:
                return ('malformed-error', bad), repr(e)
            return 'invalidspec', e.msg
        except Timeout:
            raise
        except RecursionError as e:
            return ('foreign-exception', 'RecursionError@%s' % stone_frame(e)), 'RecursionError'
        except Exception as e:  # noqa
            return (('foreign-exception', '%s@%s' % (type(e).__name__, stone_frame(e))),
                    '%s: %s' % (type(e).__name__, str(e)[:300]))
        if api is None:
            return ('malformed-error', 'returned-None'), 'specs_to_ir returned None'
        return 'api', None

    @staticmethod
    def _check_invalidspec(e, paths):
        if not isinstance(e.msg, str) or not e.msg.strip():
            return 'empty-message'
        if e.lineno is not None and not isinstance(e.lineno, int):
            return 'lineno-type'
        if e.path is not None and e.path not in paths:
            return 'foreign-path'
        return None

    def _cli(self, files, mode, read_sizes, tape, res, ensure_nl=False):
        from ..runcli import run_cli
        bump(res['probes'], 'via_cli')
        scratch = scratch_dir('c03')
        cwd0 = os.getcwd()
        try:
            outdir = os.path.join(scratch, 'out')
            paths = []
            for fn, txt in files:
                p = os.path.join(scratch, 'specs', fn)
                write_file(p, txt)
                # the path as the user spells it (cwd is the scratch root): the error line must repeat it
                # literally, whatever its form
                sp = tape.weighted([(40, 'abs'), (20, 'rel'), (10, 'dot'), (10, 'dslash'), (10, 'middot'),
                                    (10, 'updown')])
                if sp != 'abs':
                    bump(res['probes'], 'cli_path_spelling_' + sp)
                p = {'abs': p, 'rel': 'specs/' + fn, 'dot': './specs/' + fn, 'dslash': 'specs//' + fn,
                     'middot': scratch + '/specs/./' + fn, 'updown': 'specs/../specs/' + fn}[sp]
                paths.append(p)
            stdin = None
            sizes = None
            if mode == 'stdin':
                bump(res['probes'], 'via_stdin')
                # `cat a b | stone`: damaged files are concatenated as they are; for an undamaged model
                # (which must compile) every file ends with a newline, as C11 delivers it
                stdin = ''.join((txt if txt.endswith('\n') or not ensure_nl else txt + '\n')
                                for _, txt in files).encode('utf-8')
                n = read_sizes or tape.choice([1, 3, 64, 4096])
                sizes = lambda: n  # noqa
                argv = ['python_types', outdir, '--', '-p', 'pkg'] if tape.chance(50) else \
                    ['python_types', outdir, '-', '--', '-p', 'pkg']
                # the CLI reads stdin as text: CRLF and lone CR are line ends too
                nspecs = max(1, len(re.findall(r'(?m)^namespace\b', stdin.decode('utf-8', 'replace')
                                               .replace('\r\n', '\n').replace('\r', '\n'))))
                paths = ['stdin.%d' % (i + 1) for i in range(nspecs)]
            else:
                argv = ['python_types', outdir] + paths + ['--', '-p', 'pkg']
            os.chdir(scratch)
            with SimFS(scratch):
                st, out, err, exc, _ = run_cli(argv, stdin_bytes=stdin, read_sizes=sizes)
        finally:
            os.chdir(cwd0)
            rm_scratch(scratch)
        err_s = err.replace(scratch, '$S')
        if exc is not None:
            if isinstance(exc, UnicodeDecodeError):
                return 'invalidspec', 'undecodable'
            return (('foreign-exception', '%s@%s' % (type(exc).__name__, stone_frame(exc))),
                    'CLI: %s: %s' % (type(exc).__name__, str(exc)[:300]))
        if 'Traceback (most recent call last)' in err and 'raised an exception' not in err:
            return ('cli-traceback', 'stderr'), err_s[-600:]
        if st == 0:
            return 'api', None
        if st == 1:
            lines = [ln for ln in err.split('\n') if ln.strip()]
            if 'raised an exception' in err:
                return 'api', 'backend exception after a successful compile'
            ok = False
            for ln in lines:
                m = re.match(r'^(?P<path>.*?):(?P<line>\d+|None): error: (?P<msg>.+)$', ln)
                if m and (m.group('path') in paths or m.group('path') == 'None'):
                    ok = True
                if ln.startswith('You must fix the above parsing errors'):
                    ok = True
            if ok:
                return 'invalidspec', lines[-1][:200] if lines else ''
            return ('cli-bad-answer', 'no-error-line'), 'exit 1 without a "path:line: error: message" line: %r' % err_s[-400:]
        return ('cli-bad-answer', 'exit-%r' % st), err_s[-400:]
