"""C06 - the decoder accepts exactly valid serializations and fails only by validation.

Fleet with all nodes on one version: every disagreement is about the wire.  Senders are the real
encoder, foreign-dialect encoders, a lossy link (byte-level and structure-level damage) and a
garbage sender; receivers decode strictly and leniently through both entry points.
"""
import json
import traceback

from ..driver import Engine, new_result, bump
from ..simfs import scratch_dir, rm_scratch
from .. import specgen, refcodec, fleetlib
from ..specgen import T, Struct, Union, Alias, Route

JSON_KINDS = [None, True, False, 0, 1, -1, 1.5, '', 's', [], {}, [1], {'a': 1}]
EXTREMES = [2 ** 31, -2 ** 31 - 1, 2 ** 32, 2 ** 63, -2 ** 63 - 1, 2 ** 64, -1, 0, 1e39, -1e39, 1e308,
            float('inf'), float('nan'), 10 ** 400, 0.5, 1001, 12]


def runtime_frame(exc):
    tb = traceback.extract_tb(exc.__traceback__)
    key = None
    for fr in tb:
        fn = fr.filename.replace('\\', '/')
        if '/stone/' in fn and '/simstone/' not in fn:
            key = 'stone/%s:%s' % (fn.split('/stone/')[-1], fr.name)
    if key is None and tb:
        key = '%s:%s' % (tb[-1].filename.split('/')[-1], tb[-1].name)
    return key or '?'


def sites(doc, path=()):
    """All nodes of a JSON document as (path, node)."""
    yield path, doc
    if isinstance(doc, dict):
        for k in list(doc):
            yield from sites(doc[k], path + (k,))
    elif isinstance(doc, list):
        for i, x in enumerate(doc):
            yield from sites(x, path + (i,))


def get_at(doc, path):
    for p in path:
        doc = doc[p]
    return doc


def set_at(doc, path, val):
    if not path:
        return val
    parent = get_at(doc, path[:-1])
    parent[path[-1]] = val
    return doc


HOLE = '@@HOLE@@'


def find_cycle(model, d, maxlen=3):
    """A way from plain struct d back to itself through struct-typed fields (alias / nullable / one list
    level allowed): [(field name, 'plain' | 'list', next struct)], or None."""
    def steps(s):
        out = []
        for f in model.all_fields(s):
            inner, _ = model.unwrap(f.type)
            via = 'plain'
            if inner.kind == 'list':
                inner, _ = model.unwrap(inner.item)
                via = 'list'
            if inner.kind != 'ref':
                continue
            tgt = model.lookup(inner.ns, inner.name)
            if isinstance(tgt, Struct) and not tgt.subtypes and model.enum_root(tgt) is None:
                out.append((f.name, via, tgt))
        return out
    if not isinstance(d, Struct) or d.subtypes or model.enum_root(d) is not None:
        return None
    frontier = [[st] for st in steps(d)]
    for _ in range(maxlen):
        nxt = []
        for path in frontier:
            if path[-1][2] is d:
                return path
            for st in steps(path[-1][2]):
                if all(st[2] is not q[2] for q in path):
                    nxt.append(path + [st])
        frontier = nxt
    return None


def deep_layer(tape, model, d, cycle):
    """One turn of the cycle as a value of type d with `inner` (another value of type d) at its end.
    -> (layer value, inner value, JSON path of the inner document)"""
    inner = refcodec.gen_value(tape, model, T('ref', ns=d.ns, name=d.name), depth=4)
    cur = inner
    path = []
    owners = [d] + [st[2] for st in cycle[:-1]]
    for owner, (fname, via, _) in reversed(list(zip(owners, cycle))):
        v = refcodec.gen_value(tape, model, T('ref', ns=owner.ns, name=owner.name), depth=4)
        v['f'][fname] = [cur] if via == 'list' else cur
        path = [fname] + ([0] if via == 'list' else []) + path
        cur = v
    return cur, inner, tuple(path)


def mutate_structure(tape, doc, model, other_docs):
    """One structural fault at a tape-chosen site.  -> (new doc, kind)"""
    doc = json.loads(json.dumps(doc, default=repr)) if not _has_special(doc) else _deep(doc)
    nodes = list(sites(doc))
    path, node = nodes[tape.draw(len(nodes))]
    tagged = [(p, n) for p, n in nodes if isinstance(n, dict) and '.tag' in n]
    kind = tape.weighted([(14, 'replace-kind'), (10, 'drop-key'), (10, 'add-key'), (8, 'rename-key'),
                          (12, 'extreme'), (8, 'length'), (14, 'retag'), (6, 'move-payload'),
                          (6, 'null-member'), (6, 'splice-subtree'), (6, 'bool-for-number'),
                          (8, 'string-edit')])
    all_tags = sorted({g.name for u in model.types() if isinstance(u, Union) for g in model.all_tags(u)} |
                      {tg for s in model.types() if isinstance(s, Struct) and s.subtypes
                       for tg, _ in s.subtypes['tags']})
    if kind == 'replace-kind':
        new = tape.choice(JSON_KINDS)
        return set_at(doc, path, _deep(new)), kind
    if kind in ('drop-key', 'rename-key', 'null-member'):
        dicts = [(p, n) for p, n in nodes if isinstance(n, dict) and n]
        if not dicts:
            return set_at(doc, path, None), 'replace-kind'
        p, n = dicts[tape.draw(len(dicts))]
        k = tape.choice(sorted(n))
        if kind == 'drop-key':
            del n[k]
        elif kind == 'rename-key':
            n[tape.choice(['zz_renamed', k + 'x', k.upper(), '.tag2', ''])] = n.pop(k)
        else:
            n[k] = None
        return doc, kind
    if kind == 'add-key':
        dicts = [(p, n) for p, n in nodes if isinstance(n, dict)]
        if not dicts:
            return {'zz_unknown': 1}, kind
        p, n = dicts[tape.draw(len(dicts))]
        n[tape.choice(['zz_unknown', 'extra', '.tag', '.tagx', 'other', ''])] = _deep(tape.choice(JSON_KINDS))
        return doc, kind
    if kind == 'extreme':
        nums = [(p, n) for p, n in nodes if isinstance(n, (int, float)) and not isinstance(n, bool)]
        if not nums:
            return set_at(doc, path, tape.choice(EXTREMES)), kind
        p, n = nums[tape.draw(len(nums))]
        new = tape.choice(EXTREMES + [n + 1, n - 1, n * 2 + 1, -n - 1] +
                          ([float(n), n + 0.5] if abs(n) < 1e300 else []))
        return set_at(doc, p, new), kind
    if kind == 'bool-for-number':
        nums = [(p, n) for p, n in nodes if isinstance(n, (int, float)) and not isinstance(n, bool)]
        if not nums:
            return set_at(doc, path, True), kind
        p, n = nums[tape.draw(len(nums))]
        return set_at(doc, p, bool(tape.draw(2))), kind
    if kind == 'string-edit':
        strs = [(p, n) for p, n in nodes if isinstance(n, str) and not (p and p[-1] == '.tag')]
        if not strs:
            return set_at(doc, path, '!'), kind
        p, n = strs[tape.draw(len(strs))]
        ch = tape.choice(['!', 'A', '1', ' ', '@', 'é', '\n', '=', 'z'])
        how = tape.draw(3)
        new = ch + n if how == 0 else (n + ch if how == 1 else n[:len(n) // 2] + ch + n[len(n) // 2:])
        return set_at(doc, p, new), kind
    if kind == 'length':
        seqs = [(p, n) for p, n in nodes if isinstance(n, (str, list)) and not (p and p[-1] == '.tag')]
        if not seqs:
            return set_at(doc, path, 'x' * 50), kind
        p, n = seqs[tape.draw(len(seqs))]
        how = tape.draw(4)
        if how == 0:
            new = n[:0]
        elif how == 1:
            new = n * 6 if n else (['x'] * 6 if isinstance(n, list) else 'x' * 60)
        elif how == 2:
            new = n[:-1]
        else:
            new = n + n[:1] if n else n
        return set_at(doc, p, new), kind
    if kind == 'retag':
        if not tagged:
            if isinstance(node, str):
                return set_at(doc, path, tape.choice(all_tags + ['other', 'zz_tag'])), kind
            return set_at(doc, path, {'.tag': tape.choice(all_tags + ['other'])}), kind
        p, n = tagged[tape.draw(len(tagged))]
        n['.tag'] = tape.choice(all_tags + ['other', 'zz_unknown_tag', 5, None, '', ['a']])
        return doc, kind
    if kind == 'move-payload':
        if not tagged:
            return set_at(doc, path, {'.tag': 'x'}), kind
        p, n = tagged[tape.draw(len(tagged))]
        tag = n['.tag']
        if isinstance(tag, str) and tag in n and isinstance(n[tag], dict):
            inner = n.pop(tag)
            n.update(inner)
        elif isinstance(tag, str):
            rest = {k: n.pop(k) for k in list(n) if k != '.tag'}
            n[tag] = rest if tape.chance(70) else None
        return doc, kind
    # splice-subtree
    if other_docs:
        od = other_docs[tape.draw(len(other_docs))]
        onodes = list(sites(od))
        _, sub = onodes[tape.draw(len(onodes))]
        return set_at(doc, path, _deep(sub)), kind
    return set_at(doc, path, {}), kind


def _has_special(doc):
    try:
        json.dumps(doc, allow_nan=False)
        return False
    except (ValueError, TypeError):
        return True


def _deep(x):
    if isinstance(x, dict):
        return {k: _deep(v) for k, v in x.items()}
    if isinstance(x, list):
        return [_deep(v) for v in x]
    return x


def gen_garbage(tape, depth=0, budget=None):
    budget = budget if budget is not None else [6]
    budget[0] -= 1
    k = tape.draw(8 if depth < 3 and budget[0] > 0 else 6)
    if k == 0:
        return None
    if k == 1:
        return bool(tape.draw(2))
    if k == 2:
        return tape.choice([0, 1, -1, 2 ** 40, 7])
    if k == 3:
        return tape.choice([0.5, -1.5, 1e20])
    if k in (4, 5):
        return tape.choice(['', 'a', 'other', '.tag', 'basic', 'é', 'AAAA', '2015-01-01'])
    if k == 6:
        return [gen_garbage(tape, depth + 1, budget) for _ in range(tape.rng(0, 3))]
    out = {}
    for _ in range(tape.rng(0, 3)):
        out[tape.choice(['.tag', 'a', 'id', 'name', 'basic', 'other', 'x'])] = gen_garbage(tape, depth + 1, budget)
    return out


def mutate_bytes(tape, s, others):
    kind = tape.weighted([(3, 'truncate'), (3, 'flip'), (2, 'dup-span'), (2, 'splice'), (2, 'drop-span')])
    if not s:
        return s, kind
    if kind == 'truncate':
        return s[:tape.draw(len(s))], kind
    if kind == 'flip':
        i = tape.draw(len(s))
        return s[:i] + tape.choice(['"', '{', '}', '[', ']', ',', ':', '0', 'x', ' ', '\\', 'é', '-', 'e', '.',
                                    'n', 't', '\x00']) + s[i + 1:], kind
    a = tape.draw(len(s))
    b = min(len(s), a + tape.rng(1, 12))
    if kind == 'dup-span':
        return s[:b] + s[a:b] + s[b:], kind
    if kind == 'drop-span':
        return s[:a] + s[b:], kind
    o = others[tape.draw(len(others))] if others else s
    c = tape.draw(len(o) + 1)
    return s[:a] + o[c:c + tape.rng(1, 20)] + s[a:], kind


class C06Engine(Engine):
    property_id = 'C06'
    name = 'c06'
    level = 'fault_enumeration'
    unit_cap = 600
    det_sample = 4
    rule = ('a run generates a spec, builds it with the real python_types backend, imports the generated '
            'package and performs 100-250 deliveries between nodes of the same version. Each delivery picks a '
            'type (struct, union, alias, enumerated-subtype base), a valid value, a sender (real encoder; '
            'foreign-dialect reference encoder: explicit nulls, bare-string void tags, integer literals for '
            'floats, permuted keys; lossy link with 1-2 structural faults at any nesting depth or byte-level '
            'damage of the JSON text; garbage sender; deep sender: a valid document of a recursive type nested '
            '10-2000 turns deep, or 300-150000 brackets of nesting around a document), a receiver mode '
            '(strict/lenient) and an entry point '
            '(json_decode / json_compat_obj_decode). A reference decoder written from the two docs classifies '
            'the parsed document accept / reject / unspecified. Distinct = (sender kind, fault kind, mode, '
            'entry point, top-level type kind, reference verdict, outcome); undamaged real-encoder deliveries '
            'are the fault-free baseline and are not counted as non-trivial.')
    real_components = ['stone frontend + python_types backend (generated classes)',
                       'stone_serializers (json_encode/json_decode/json_compat_obj_*)', 'stone_validators',
                       'stone_base']
    stub_components = ['links (foreign dialect, lossy, garbage senders)', 'node scheduling',
                       'reference codec written from docs/json_serializer.rst and docs/evolve_spec.rst']
    assumptions = ['annotations (Omitted callers, redaction) are switched off in fleet specs',
                   'deep valid documents are judged for the kind of failure only: a refusal is the open known '
                   'finding C06 deep-nesting, a foreign exception is a violation',
                   'unspecified documents are judged only for "no foreign exception" and "accepted values are valid"']
    expected_probes = ['must_accept', 'must_reject', 'unspecified', 'dialect_delivery', 'byte_damage_not_json',
                       'byte_damage_still_json', 'garbage_delivery', 'strict_rejection', 'lenient_unknown_ignored',
                       'deep_accepted']

    def prepare(self):
        from .. import runcli  # noqa
        import stone.backends.python_types  # noqa
        from stone.backends.python_rsrc import stone_serializers, stone_validators, stone_base  # noqa

    def plan(self, tier):
        if tier == 'smoke':
            return [('fleet', 8, 2)]
        if tier == 'thorough':
            return [('fleet', 60000, 20)]
        return [('fleet', 1600, 10)]

    def run(self, tape, kind):
        res = new_result()
        scratch = scratch_dir('c06')
        self._versions = []
        try:
            self._run(tape, res, scratch)
        finally:
            for v in self._versions:
                v.close()
            rm_scratch(scratch)
        return res

    def _run(self, tape, res, scratch):
        from stone.backends.python_rsrc import stone_serializers as ss, stone_validators as bv
        ev = res['events']
        model = specgen.gen_model(tape, fleetlib.fleet_cfg())
        ver = fleetlib.Version(model, 'fleet_v0', scratch)
        self._versions.append(ver)
        res['artefacts']['specs'] = {fn: txt for fn, txt in specgen.render_reference(model)}
        if ver.error:
            res['rejected'] = True
            ev.append('build failed: %s' % ver.error.split('\n')[-1][:200])
            return
        types = []
        for n in model.namespaces.values():
            for d in n.defs:
                if isinstance(d, (Struct, Union, Alias)):
                    types.append((T('ref', ns=d.ns, name=d.name), type(d).__name__.lower()))
        if not types:
            res['rejected'] = True
            return
        pool_docs, pool_strs = [], []
        ndel = tape.rng(100, 250)
        main_tape = tape
        for di in range(ndel):
            tape = main_tape.fork('d%d' % di)      # one independent segment per delivery
            if tape.absent:
                continue
            t, tkind = types[tape.draw(len(types))]
            d = model.lookup(t.ns, t.name)
            if isinstance(d, Struct) and d.subtypes:
                tkind = 'tree'
            try:
                value = refcodec.gen_value(tape, model, t)
            except refcodec.Uninhabitable:
                bump(res['probes'], 'uninhabitable_type_skipped')
                continue
            if value is None and not (isinstance(d, Alias) and model.unwrap(d.type)[1]):
                continue
            strict = bool(tape.draw(2))
            entry = tape.choice(['obj', 'json'])
            sender = tape.weighted([(10, 'real'), (20, 'dialect'), (40, 'lossy-struct'), (15, 'lossy-bytes'),
                                    (15, 'garbage'), (4, 'deep-valid'), (2, 'deep-garbage')])
            deep = None
            if sender == 'deep-valid':
                cyc = find_cycle(model, d)
                if cyc is None:
                    sender = 'dialect'
            validator = ver.validator(t)
            fault = '-'
            text = None
            try:
                if sender == 'real':
                    doc = ss.json_compat_obj_encode(validator, ver.to_py(t, value))
                    doc = json.loads(json.dumps(doc))
                elif sender == 'garbage':
                    doc = gen_garbage(tape)
                    bump(res['probes'], 'garbage_delivery')
                elif sender == 'deep-valid':
                    # a valid document of a recursive type, nested K turns of the cycle deep (built without
                    # recursion: one encoded turn with a hole, repeated)
                    layer, inner, hpath = deep_layer(tape, model, d, cyc)
                    layer_doc = refcodec.ref_encode(model, t, layer, refcodec.PLAIN)
                    inner_doc = refcodec.ref_encode(model, t, inner, refcodec.PLAIN)
                    if get_at(layer_doc, hpath) != inner_doc or \
                            refcodec.ref_decode(model, t, layer_doc, strict)[0] != 'ok':
                        # e.g. the list on the cycle demands two items: no one-item turn exists
                        bump(res['probes'], 'deep_layer_unusable')
                        continue
                    K = tape.weighted([(3, 10), (3, 40), (2, 120), (2, 400), (1, 2000)])
                    holed = set_at(json.loads(json.dumps(layer_doc)), hpath, HOLE)
                    pre, suf = json.dumps(holed).split(json.dumps(HOLE))
                    deep = {'K': K, 'turn': len(cyc), 'layer': layer_doc}
                    if entry == 'json':
                        text = pre * K + json.dumps(inner_doc) + suf * K
                        doc = None
                    else:
                        doc = inner_doc
                        for _ in range(K):
                            doc = set_at(json.loads(json.dumps(holed)), hpath, doc)
                    fault = 'K%d' % K
                    bump(res['faults'], 'deep-valid')
                elif sender == 'deep-garbage':
                    N = tape.choice([300, 3000, 150000])
                    o, c = tape.choice([('[', ']'), ('{"a":', '}'), ('{".tag":"a","a":', '}')])
                    text = o * N + json.dumps(refcodec.ref_encode(model, t, value, refcodec.PLAIN)) + c * N
                    entry = 'json'
                    doc = None
                    deep = {'N': N, 'open': o}
                    fault = 'N%d' % N
                    bump(res['faults'], 'deep-garbage')
                else:
                    dialect = refcodec.PLAIN
                    if sender == 'dialect' or tape.chance(30):
                        dialect = refcodec.Dialect(explicit_null=tape.chance(50), void_as_string=tape.chance(50),
                                                   int_for_float=tape.chance(50), reverse_keys=tape.chance(50))
                    doc = refcodec.ref_encode(model, t, value, dialect)
                    if sender == 'dialect':
                        bump(res['probes'], 'dialect_delivery')
                        fault = 'n%dv%df%dk%d' % (dialect.explicit_null, dialect.void_as_string,
                                                  dialect.int_for_float, dialect.reverse_keys)
                    elif sender == 'lossy-struct':
                        kinds = []
                        for _ in range(tape.rng(1, 2)):
                            doc, fk = mutate_structure(tape, doc, model, pool_docs)
                            kinds.append(fk)
                            bump(res['faults'], fk)
                        fault = '+'.join(kinds)
                    else:
                        text = json.dumps(doc)
                        text, fault = mutate_bytes(tape, text, pool_strs)
                        bump(res['faults'], 'bytes-' + fault)
                        entry = 'json'
            except Exception as e:   # noqa
                raise RuntimeError('harness: sender failed for %r: %s: %s' % (value, type(e).__name__, e))
            if sender in ('real', 'dialect') and len(pool_docs) < 12:
                pool_docs.append(doc)
                pool_strs.append(json.dumps(doc))
            # ---- the wire --------------------------------------------------------------------
            parsed_ok = True
            if deep is None:
                if text is None and entry == 'json':
                    text = json.dumps(doc)
                if text is not None:
                    try:
                        doc = json.loads(text)
                        if sender == 'lossy-bytes':
                            bump(res['probes'], 'byte_damage_still_json')
                    except ValueError:
                        parsed_ok = False
                        bump(res['probes'], 'byte_damage_not_json')
            # ---- reference verdict ----------------------------------------------------------------
            if sender == 'deep-valid':
                verdict, rv = 'ok', None          # by construction: every turn is the valid layer checked above
            elif sender == 'deep-garbage':
                verdict, rv = 'unspec', 'nesting only'      # only the kind of failure is judged
            elif parsed_ok:
                verdict, rv = refcodec.ref_decode(model, t, doc, strict)
            else:
                verdict, rv = 'rej', 'not JSON'
            bump(res['probes'], {'ok': 'must_accept', 'rej': 'must_reject', 'unspec': 'unspecified'}[verdict])
            # ---- delivery --------------------------------------------------------------------------
            outcome, got, exc = None, None, None
            try:
                if entry == 'json':
                    obj = ss.json_decode(validator, text, strict=strict)
                else:
                    obj = ss.json_compat_obj_decode(validator, doc, strict=strict)
                outcome = 'value'
            except bv.ValidationError as e:
                outcome, exc = 'validation-error', e
            except RecursionError as e:
                outcome, exc = 'foreign', e
            except Exception as e:   # noqa
                outcome, exc = 'foreign', e
            res['steps'] += 1
            if deep is not None:
                wire = 'deep %s' % json.dumps(deep, default=repr)[:300]
            else:
                wire = text if text is not None else json.dumps(doc, default=repr)
            ev.append('%d %s.%s %s %s %s %s -> %s/%s %s' % (di, t.ns, t.name, sender, fault,
                                                            'strict' if strict else 'lenient', entry, verdict,
                                                            outcome, wire[:300]))
            ctx = 'type %s.%s, %s, %s, sender %s (%s), wire %s' % (
                t.ns, t.name, 'strict' if strict else 'lenient', entry, sender, fault, wire[:400])
            if outcome == 'foreign':
                res['violations'].append({
                    'class': 'foreign-exception', 'key': '%s@%s' % (type(exc).__name__, runtime_frame(exc)),
                    'detail': '%s: %s | %s' % (type(exc).__name__, str(exc)[:200], ctx)})
            elif outcome == 'value' and deep is not None:
                bump(res['probes'], 'deep_accepted')     # reading a deep value back would recurse in the harness
            elif outcome == 'value':
                # accepted values must be valid for the type
                try:
                    got = ver.from_py(t, obj)
                    validator.validate(obj)
                    valid = True
                except bv.ValidationError as e:
                    valid = False
                    why = 'the validator of the type refuses the accepted value: %s' % e
                except Exception as e:   # noqa
                    valid = False
                    why = 'the accepted value cannot be read back: %s: %s' % (type(e).__name__, e)
                if not valid:
                    res['violations'].append({'class': 'accepted-invalid', 'key': '%s:%s' % (tkind, _fkey(fault)),
                                              'detail': '%s | %s' % (why, ctx)})
                elif verdict == 'rej':
                    res['violations'].append({'class': 'accepted-must-reject', 'key': _rkey(rv),
                                              'detail': 'reference: reject (%s) but decoder returned %r | %s' % (
                                                  rv, got, ctx)})
                elif verdict == 'ok' and got != rv:
                    res['violations'].append({'class': 'wrong-value', 'key': '%s:%s' % (tkind, sender),
                                              'detail': 'decoded %r, reference %r | %s' % (got, rv, ctx)})
                if not strict and sender == 'lossy-struct' and 'add-key' in fault and verdict == 'ok':
                    bump(res['probes'], 'lenient_unknown_ignored')
            else:
                if verdict == 'ok' and sender == 'deep-valid':
                    res['violations'].append({'class': 'rejected-must-accept', 'key': 'deep-nesting',
                                              'detail': 'a valid document of a recursive type, nested %d turns of '
                                                        'a %d-field cycle deep, was refused: %s | %s' % (
                                                            deep['K'], deep['turn'], exc, ctx)})
                elif verdict == 'ok':
                    res['violations'].append({'class': 'rejected-must-accept', 'key': '%s:%s' % (tkind, sender if sender != 'lossy-struct' else _fkey(fault)),
                                              'detail': 'reference: accept but decoder raised %s | %s' % (exc, ctx)})
                if strict and verdict == 'rej' and 'strict' in str(rv):
                    bump(res['probes'], 'strict_rejection')
            if sender != 'real':
                res['states'].append('%s|%s|%s|%s|%s|%s|%s' % (sender, _fkey(fault), 'strict' if strict else 'lenient',
                                                               entry, tkind, verdict, outcome))
        res['sample'] = {'types': len(types), 'deliveries': ndel,
                         'last': ev[-1][:300] if ev else None}


def _fkey(fault):
    return fault.split('+')[0] if fault else '-'


def _rkey(reason):
    import re
    return re.sub(r"'[^']*'|\"[^\"]*\"|%r", 'X', str(reason))[:60]
