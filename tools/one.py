#!/venv/bin/python
"""one.py <PROP> <kind> <idx> [seed] : execute a single run of an engine in this process and print its
violations and trace (debugging aid; VERIF_REPO selects the tree)."""
import json, sys, os
sys.path.insert(0, '/verif')
os.environ.setdefault('PYTHONHASHSEED', '0')
from simstone import use_repo
use_repo()
from simstone.check import get_engine
from simstone.driver import Batch
prop, kind, idx = sys.argv[1], sys.argv[2], int(sys.argv[3])
seed = int(sys.argv[4]) if len(sys.argv) > 4 else 0
eng = get_engine(prop)
eng.prepare()
r = Batch(eng, seed, 'quick').exec_run(kind, idx)
print(json.dumps({'violations': r['violations'], 'trace': r['trace']}, indent=1, default=str)[:6000])
