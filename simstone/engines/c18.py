"""C18 - backends write only inside the output folder, verbatim, as the manifest says.

Kinds of run:
  paths    scripted backend, path requests through the three entry points
  emit     scripted backend, emit scripts against the reference pretty-printer
  builtin  the built-in backends on generated specs, manifest run vs real run
Each run executes a fault-free pass and (most runs) a second pass of the same
script with one injected file-system fault or crash point.
"""
import io
import json
import os
import sys

from .. import use_repo
from ..driver import Engine, new_result, bump
from ..simfs import (SimFS, SimCrash, scratch_dir, rm_scratch, snapshot, read_tree, write_file,
                     _real)
from .. import emitref

use_repo()

TEXT_ATOMS = ['x', 'foo', 'bar()', '{', '}', '{{', '}}', '{0}', '{name}', '{}', '%s', '%(x)s',
              '\\', '"', "'", '\t', '\U0001F600', 'é', '中文', '$', '#', '{0!r}',
              '{a.b}', '{:>{w}}', 'a-b', 'long' * 12, ' ', '  ', ';', '::', '->', '{ }', '}{',
              '\r', ' ', 'end.']
WORD_ATOMS = ['x', 'foo', 'bar()', '{', '}', '{{', '}}', '{0}', '{name}', '{}', '%s', '\\', '"',
              '\U0001F600', 'été', '中文', 'a-b', 'co-op-er-ate', 'w' * 30,
              'long' * 25, 'end.', 'a--b', 'I', 'of', 'the']
SEGS = ['f.txt', 'sub', '.', '..', '', 'ünï.txt', 'out', 'out-evil', 'deep', 'y' * 40,
        'sp ace', 'pre', 'g.swift']
PH_NAMES = ['name', 'x', 'ph_1', 'w', 'é']

SRC_FILES = {'s1.txt': b'source one\n', 's2.dat': bytes(range(256)), 'f.txt': b'same name\n'}


def lex_resolve(cwd, path):
    if not path.startswith('/'):
        path = cwd + '/' + path
    parts = []
    for seg in path.split('/'):
        if seg in ('', '.'):
            continue
        if seg == '..':
            if parts:
                parts.pop()
            continue
        parts.append(seg)
    return '/' + '/'.join(parts)


def is_inside(root, p):
    return p == root or p.startswith(root + '/')


class World:
    def __init__(self, scratch, root_exists):
        self.scratch = scratch
        self.E = os.path.join(scratch, 'w/a/b/c/d/e')
        self.D = os.path.dirname(self.E)
        self.ROOT = os.path.join(self.E, 'out')
        self.abs = os.path.join(scratch, 'abs')
        self.src = os.path.join(scratch, 'src')
        self.root_exists = root_exists

    def build(self):
        rm_scratch(self.scratch)
        mk = _real['makedirs']
        mk(self.E)
        for sib in ('out2', 'out-evil', 'outx'):
            mk(os.path.join(self.E, sib))
        mk(self.abs)
        mk(self.src)
        for n, b in SRC_FILES.items():
            write_file(os.path.join(self.src, n), b)
        write_file(os.path.join(self.E, 'out-evil', 'keep.txt'), b'do not touch\n')
        write_file(os.path.join(self.scratch, 'spec', 't.stone'), 'namespace t\n')
        if self.root_exists:
            mk(os.path.join(self.ROOT, 'pre'))
            write_file(os.path.join(self.ROOT, 'pre', 'old.txt'), b'old\n')

    def root_forms(self):
        R, E, D = self.ROOT, self.E, self.D
        forms = [(R, self.scratch), ('out', E), ('e/out', D), ('./out/', E), ('../e/out', E),
                 ('out/../out', E), (R + '/', self.scratch)]
        if self.root_exists:
            forms += [('.', R), ('../../out', os.path.join(R, 'pre')), ('..', os.path.join(R, 'pre'))]
        return forms

    def abs_targets(self):
        R = self.ROOT
        return [self.abs + '/x.txt', R, R + '/in.txt', R + '-evil/x.txt', self.E + '/out2/x.txt',
                '//' + R[1:] + '/dbl.txt', R + '/../out-evil/y.txt', R + '/sub/../../out/z.txt',
                self.E + '/outx', R + '/pre', '/', self.scratch + '/abs']


def _trivial_api():
    from stone.frontend.frontend import specs_to_ir
    return specs_to_ir([('t.stone', 'namespace t\n')])


def gen_text(tape, atoms=TEXT_ATOMS, lo=0, hi=4, sep=''):
    n = tape.rng(lo, hi)
    return sep.join(tape.choice(atoms) for _ in range(n))


def gen_emit_ops(tape, depth=0, budget=None, ph_state=None, cur=0, tabs=False):
    """Body of one output file.  ph_state collects placeholder registrations to append."""
    ops = []
    n = tape.rng(1, 6 if depth == 0 else 3)
    for _ in range(n):
        k = tape.weighted([(30, 'emit'), (12, 'raw'), (14, 'wrap'), (10, 'indent'), (12, 'block'),
                           (10, 'mlist'), (8, 'ph')])
        if k == 'emit':
            ops.append({'op': 'emit', 's': gen_text(tape).replace('\n', '')})
        elif k == 'raw':
            lines = [gen_text(tape) for _ in range(tape.rng(1, 3))]
            ops.append({'op': 'raw', 's': '\n'.join(lines) + '\n'})
        elif k == 'wrap':
            words = [tape.choice(WORD_ATOMS) for _ in range(tape.rng(0, 14))]
            kw = {}
            if tape.chance(50):
                kw['prefix'] = tape.choice(['# ', '// ', '', ' * ', '{', '{0} '])
            if tape.chance(30):
                kw['initial_prefix'] = tape.choice(['- ', ':param x: ', '{} '])
            if tape.chance(30):
                kw['subsequent_prefix'] = tape.choice(['  ', '    ', '}} '])
            if tape.chance(60):
                # the width always leaves room for at least one character after indentation and
                # prefixes (textwrap's behaviour for narrower widths is outside the property)
                need = cur + len(kw.get('prefix', '')) + max(len(kw.get('initial_prefix', '')),
                                                              len(kw.get('subsequent_prefix', '')))
                kw['width'] = need + tape.choice([60, 1, 2, 5, 12, 30])
            if tape.chance(25):
                kw['break_long_words'] = True
            if tape.chance(25):
                kw['break_on_hyphens'] = True
            ops.append({'op': 'wrap', 's': ' '.join(words), 'kw': kw})
        elif k == 'indent' and depth < 3:
            dent = tape.choice([None, 0, 1, 2, 4, 7])
            add = dent if dent is not None else (1 if tabs else 4)
            ops.append({'op': 'indent', 'dent': dent,
                        'body': gen_emit_ops(tape, depth + 1, ph_state=ph_state, cur=cur + add, tabs=tabs)})
        elif k == 'block' and depth < 3:
            kw = {}
            if tape.chance(70):
                kw['before'] = gen_text(tape, hi=2)
            if tape.chance(40):
                kw['after'] = gen_text(tape, hi=2)
            if tape.chance(50):
                kw['delim'] = tape.choice([['{', '}'], ['(', ')'], [None, None], ['{', None],
                                           [None, '}'], ['', ''], ['{{', '}}'], ['begin', 'end']])
            if tape.chance(30):
                kw['dent'] = tape.choice([0, 2, 8])
            if tape.chance(30):
                kw['allman'] = True
            add = kw['dent'] if kw.get('dent') is not None else (1 if tabs else 4)
            ops.append({'op': 'block', 'kw': kw,
                        'body': gen_emit_ops(tape, depth + 1, ph_state=ph_state, cur=cur + add, tabs=tabs)})
        elif k == 'mlist':
            items = [gen_text(tape, lo=1, hi=2).replace('\n', '') for _ in range(tape.rng(0, 4))]
            kw = {}
            if tape.chance(60):
                kw['before'] = gen_text(tape, hi=2)
            if tape.chance(40):
                kw['after'] = gen_text(tape, hi=2)
            if tape.chance(50):
                kw['delim'] = tape.choice([['(', ')'], ['{', '}'], ['', ''], ['[', ']'], ['{{', '}']])
            if tape.chance(50):
                kw['compact'] = False
            if tape.chance(30):
                kw['sep'] = tape.choice([';', '', ' {', ','])
            if tape.chance(30):
                kw['skip_last_sep'] = True
            ops.append({'op': 'mlist', 'items': items, 'kw': kw})
        elif k == 'ph' and ph_state is not None:
            if tape.chance(50):
                ops.append({'op': 'ph', 'name': ''})
                ph_state['pos'] += 1
            else:
                nm = tape.choice(PH_NAMES)
                ops.append({'op': 'ph', 'name': nm})
                ph_state['named'].add(nm)
            if tape.chance(50):
                ops.append({'op': 'raw', 's': '\n'})
        else:
            ops.append({'op': 'emit', 's': ''})
    return ops


def gen_file_body(tape, tabs=False):
    ph = {'pos': 0, 'named': set()}
    body = gen_emit_ops(tape, 0, ph_state=ph, tabs=tabs)
    regs = [{'op': 'pos', 's': gen_text(tape, lo=0, hi=3)} for _ in range(ph['pos'])]
    regs += [{'op': 'named', 'name': nm, 's': gen_text(tape, lo=0, hi=3)} for nm in sorted(ph['named'])]
    # registrations may come before, after or between the emits
    for r in regs:
        body.insert(tape.draw(len(body) + 1), r)
    # a file must end with a newline-terminated piece for emit_raw's contract; placeholders are free
    return body


class C18Engine(Engine):
    property_id = 'C18'
    name = 'c18'
    level = 'fault_enumeration'
    unit_cap = 300
    det_sample = 5
    rule = ('runs are tape-generated backend scripts (path requests through output_to_relative_path / '
            'copy_to_path / the Swift writer under varied output-root spellings and cwds; emit scripts '
            'judged by a reference pretty-printer; built-in backends on generated specs in real and '
            'manifest mode), each executed fault-free and again with one injected file-system fault or '
            'crash point. A case is distinct by (kind, entry point, path class, root/cwd form, mode, '
            'fault kind, fault position class, outcome) or, for emit scripts, by the op bigram under its '
            'indentation depth; trivial cases (no file-system request at all) are not counted.')
    real_components = ['stone/backend.py', 'stone/compiler.py', 'stone/cli.py (builtin kind)',
                       'stone/backends/* (builtin kind)', 'kernel path resolution on tmpfs']
    stub_components = ['SimFS fault plan (errno, short write, close error, EEXIST race, crash)',
                       'scripted backend (drives the real Backend API)', 'directory listing order']
    assumptions = ['no symlinks are planted in the world (the property speaks about path forms)',
                   'wrapped text is judged by word order, prefixes and avoidable over-long lines, not by '
                   'the exact break column', 'debug mode (-vv) is never used']
    expected_probes = ['escape_refused', 'inside_written', 'manifest_run', 'fault_pass',
                       'crash_pass', 'torn_file_seen', 'copy_into_dir', 'emit_placeholder_file']

    def prepare(self):
        import stone.compiler  # noqa
        import stone.backend  # noqa
        from .. import scripted  # noqa
        self.api = _trivial_api()
        try:
            from . import c18_builtin
            c18_builtin.prepare(self)
        except ImportError:
            pass

    def plan(self, tier):
        if tier == 'smoke':
            return [('paths', 40, 20), ('emit', 40, 20)] + self._builtin_plan(tier)
        if tier == 'thorough':
            return [('paths', 120000, 400), ('emit', 120000, 400)] + self._builtin_plan(tier)
        return [('paths', 6000, 200), ('emit', 6000, 200)] + self._builtin_plan(tier)

    def _builtin_plan(self, tier):
        try:
            from . import c18_builtin
        except ImportError:
            return []
        return c18_builtin.plan(tier)

    # ------------------------------------------------------------------
    def run(self, tape, kind):
        if kind == 'builtin':
            from . import c18_builtin
            return c18_builtin.run(self, tape)
        res = new_result()
        scratch = scratch_dir('c18')
        cwd0 = os.getcwd()
        try:
            if kind == 'paths':
                self._run_scripted(tape, res, scratch, paths=True)
            else:
                self._run_scripted(tape, res, scratch, paths=False)
        finally:
            os.chdir(cwd0)
            rm_scratch(scratch)
        scrub(res, scratch)
        return res

    # ------------------------------------------------------------------
    def _gen_path_ops(self, tape, world):
        ops = []
        for _ in range(tape.rng(1, 5)):
            entry = tape.choice(['file', 'copy', 'swift'])
            if tape.chance(25):
                path = tape.choice(world.abs_targets())
                cls = 'abs'
            elif tape.chance(15):
                # paths that leave the root and come back in by its own name, through a component
                # that may not exist yet (what the kernel resolves and what normalisation says can differ)
                leaf = tape.choice(['f.txt', 'sub', 'ünï.txt', 'g.swift'])
                path = tape.choice(['../%s/../out', '../out/%s', 'sub/../../out/%s', '../%s/../out/%s',
                                    '%s/../../out', '../out/../out/%s', './../out/%s/']) \
                    .replace('%s', leaf)
                cls = 'rel'
            else:
                segs = [tape.choice(SEGS) for _ in range(tape.rng(1, 4))]
                path = '/'.join(segs)
                if tape.chance(10):
                    path += '/'
                cls = 'rel'
            if entry == 'file':
                body = [{'op': 'emit', 's': 'content of %d {}' % len(ops)}]
                ops.append({'op': 'file', 'path': path, 'mode': tape.weighted([(4, 'wb'), (1, 'ab')]),
                            'body': body, 'cls': cls})
            elif entry == 'copy':
                ops.append({'op': 'copy', 'src': tape.choice(sorted(SRC_FILES)), 'dst': path,
                            'join': cls == 'rel' and not tape.chance(15), 'cls': cls})
            else:
                ops.append({'op': 'swift', 'text': 'swift text %d {}\n' % len(ops), 'name': path,
                            'cls': cls})
        return ops

    def _gen_emit_script(self, tape, tabs):
        ops = []
        nfiles = tape.rng(1, 3)
        names = ['a.txt', 'dir/b.txt', 'c.py', 'a.txt']
        for i in range(nfiles):
            if tape.chance(20):
                # stray emits outside any file: must not leak into the next file
                ops.append({'op': 'emit', 's': 'STRAY ' + gen_text(tape)})
                if tape.chance(30):
                    ops.append({'op': 'ph', 'name': ''})
            name = names[tape.draw(len(names))]
            mode = 'ab' if tape.chance(12) else 'wb'
            prev = [o for o in ops if o['op'] == 'file']
            if prev and tape.chance(15):
                # the same file written again with the same text (a backend looping over namespaces
                # that share a file, a section appended twice)
                again = dict(prev[tape.draw(len(prev))])
                again['mode'] = tape.choice(['ab', 'wb', 'ab'])
                ops.append(again)
                continue
            ops.append({'op': 'file', 'path': name, 'mode': mode, 'body': gen_file_body(tape, tabs),
                        'cls': 'rel'})
        return ops

    def _execute(self, world, target, cwd, ops, tabs, manifest, plan, clean=False):
        """One pass: returns dict(outcomes, log, calls, crashed, exc, manifest_list, fs)."""
        from stone.compiler import Compiler
        from .. import scripted
        script = scripted.Script()
        script.ops = ops
        script.tabs = tabs
        script.src_dir = world.src
        script.outcomes = []
        fs = SimFS(world.scratch, plan=plan)
        script.fs = fs
        cls = scripted.make_backend_class(script)
        # record isdir(dst) before each copy: the harness's own observation
        mod = scripted.FakeModule(cls)
        out = {'crashed': False, 'exc': None, 'manifest_list': None}
        os.chdir(cwd)
        try:
            with fs:
                c = Compiler(self.api, mod, [], target, clean_build=clean, output_manifest=manifest)
                c.build()
                if manifest:
                    out['manifest_list'] = c.output_manifest()
        except SimCrash:
            out['crashed'] = True
        except Exception as e:  # BackendException cannot happen (ops are caught one by one)
            out['exc'] = '%s: %s' % (type(e).__name__, e)
        out['outcomes'] = script.outcomes
        out['log'] = fs.log
        out['calls'] = fs.calls
        out['faults'] = fs.fault_counts
        out['succeeded'] = fs.succeeded
        return out

    # ------------------------------------------------------------------
    def _run_scripted(self, tape, res, scratch, paths):
        root_exists = tape.chance(50)
        world = World(scratch, root_exists)
        forms = world.root_forms()
        if paths:
            target, cwd = forms[tape.draw(len(forms))]
        else:
            target, cwd = forms[tape.draw(2)]
        tabs = (not paths) and tape.chance(25)
        manifest = tape.chance(30)
        clean = paths and tape.chance(10)
        world.build()
        ops = self._gen_path_ops(tape, world) if paths else self._gen_emit_script(tape, tabs)
        want_fault = tape.chance(70)

        ev = res['events']
        res['_scrub'] = scratch
        ev.append('world root_exists=%s target=%r cwd=%r tabs=%s manifest=%s clean=%s' % (
            root_exists, target, os.path.relpath(cwd, scratch), tabs, manifest, clean))
        res['trace'].append({'target': target, 'cwd': os.path.relpath(cwd, scratch), 'tabs': tabs,
                             'manifest': manifest, 'clean': clean, 'root_exists': root_exists})
        for op in ops:
            res['trace'].append(op)
            ev.append(json.dumps(op, sort_keys=True, ensure_ascii=True))

        # isdir observations for copy destinations are taken inside the pass (see _judge)
        before = snapshot(scratch)
        p1 = self._execute(world, target, cwd, ops, tabs, manifest, plan=None, clean=clean)
        after = snapshot(scratch)
        self._judge(res, world, target, cwd, ops, tabs, manifest, clean, p1, before, after,
                    fault=None, paths=paths)
        res['steps'] += p1['calls'] + len(ops)

        if manifest and not want_fault and not clean:
            # manifest fidelity for scripts whose destinations do not depend on what the run creates
            self._manifest_vs_real(res, world, target, cwd, ops, tabs, p1)

        if want_fault and p1['calls'] > 0:
            world.build()
            k = tape.draw(p1['calls'])
            opk = [e for e in p1['log'] if len(e) > 1 and e[1] == k and e[0] not in ('CRASH', 'FAULT', 'torn')]
            opname = opk[0][0] if opk else '?'
            if opname == 'open_w':
                fault = tape.weighted([(3, ('errno', 'ENOSPC')), (3, ('short', tape.rng(0, 3), 4, 'ENOSPC')),
                                       (2, ('closefail', 'EIO')), (2, ('errno', 'EACCES')),
                                       (1, ('errno', 'EMFILE')), (3, ('crash',))])
            elif opname in ('makedirs', 'mkdir'):
                fault = tape.weighted([(3, ('eexist_race',)), (2, ('errno', 'EACCES')),
                                       (2, ('errno', 'ENOSPC')), (3, ('crash',))])
            else:
                fault = tape.weighted([(3, ('errno', 'EIO')), (2, ('errno', 'ENOENT')),
                                       (2, ('errno', 'EACCES')), (3, ('crash',))])
            ev.append('fault at call %d (%s): %r' % (k, opname, fault))
            res['trace'].append({'fault_at_call': k, 'op': opname, 'fault': list(fault)})
            before = snapshot(scratch)
            p2 = self._execute(world, target, cwd, ops, tabs, manifest, plan={k: fault}, clean=clean)
            after = snapshot(scratch)
            for fk, n in p2['faults'].items():
                bump(res['faults'], fk, n)
            bump(res['probes'], 'fault_pass')
            if p2['crashed']:
                bump(res['probes'], 'crash_pass')
            self._judge(res, world, target, cwd, ops, tabs, manifest, clean, p2, before, after,
                        fault=(k, opname, fault), paths=paths)
            res['steps'] += p2['calls']
        res['sample'] = {'kind': 'paths' if paths else 'emit', 'target': target,
                         'cwd': os.path.relpath(cwd, scratch), 'manifest': manifest,
                         'ops': [self._brief(o) for o in ops[:4]],
                         'outcomes': [o[1] for o in p1['outcomes']]}

    @staticmethod
    def _brief(op):
        d = {k: v for k, v in op.items() if k not in ('body',)}
        if 'body' in op:
            d['body_ops'] = [b['op'] for b in op['body']][:12]
        return d

    # ------------------------------------------------------------------
    def _effective(self, world, target, cwd, op, isdir_before):
        """Lexically resolved destination of a top-level path op."""
        if op['op'] == 'file':
            full = op['path'] if op['path'].startswith('/') else target.rstrip('/') + '/' + op['path'] \
                if target != '/' else '/' + op['path']
            return lex_resolve(cwd, full)
        if op['op'] == 'swift':
            full = op['name'] if op['name'].startswith('/') else target.rstrip('/') + '/' + op['name']
            return lex_resolve(cwd, full)
        if op['op'] == 'copy':
            dst = op['dst']
            if op.get('join') and not dst.startswith('/'):
                dst = target.rstrip('/') + '/' + dst
            p = lex_resolve(cwd, dst)
            if isdir_before:
                p = p + '/' + op['src']
            return p
        return None

    def _judge(self, res, world, target, cwd, ops, tabs, manifest, clean, p, before, after, fault, paths):
        scratch = world.scratch
        ROOT = world.ROOT
        rootrel = os.path.relpath(ROOT, scratch)
        ev = res['events']
        viol = res['violations']
        tag = 'faulted' if fault else 'clean'
        ev.append('pass %s calls=%d crashed=%s exc=%s outcomes=%s' % (
            tag, p['calls'], p['crashed'], p['exc'], [o[1] for o in p['outcomes']]))
        for e in p['log']:
            ev.append(repr(e))

        def inside_rel(rel):
            return rel == rootrel or rel.startswith(rootrel + '/')

        # 1. containment over the log: no mutating call on a path outside the output folder
        for e in p['log']:
            if e[0] in ('open_w', 'makedirs', 'mkdir', 'remove', 'rename', 'replace', 'rmdir', 'copy',
                        'copy2', 'copyfile', 'rmtree'):
                dst = e[3]
                if e[0] in ('makedirs', 'mkdir') and e[1] not in p['succeeded']:
                    continue   # a refused no-op (EEXIST on an ancestor spelled through '..')
                if not inside_rel(dst):
                    # creating/removing the root's own ancestors is not generated; anything here is an escape
                    viol.append({'class': 'escape', 'key': 'fs-call-outside:%s' % e[0],
                                 'detail': 'mutating call %s on %r (outside %r), pass=%s fault=%r' % (
                                     e[0], dst, rootrel, tag, fault)})
                    break
        # 2. containment over the snapshot diff
        changed = [k for k in set(before) | set(after) if before.get(k) != after.get(k)]
        outside = sorted(k for k in changed if not inside_rel(k))
        if outside:
            viol.append({'class': 'escape', 'key': 'tree-changed-outside',
                         'detail': 'paths outside the output folder changed: %r (pass=%s fault=%r)' % (
                             outside[:5], tag, fault)})
        # 3. manifest mode writes nothing, anywhere
        if manifest:
            bump(res['probes'], 'manifest_run')
            bad = [e for e in p['log'] if e[0] in ('open_w', 'copy', 'copy2', 'copyfile', 'rename',
                                                   'replace', 'remove')]
            newfiles = sorted(k for k in changed if after.get(k) not in (None, 'd'))
            if clean:
                newfiles = [k for k in newfiles if before.get(k) is None]
            if bad or newfiles:
                viol.append({'class': 'manifest-wrote', 'key': 'scripted:%s' % (
                    bad[0][0] if bad else 'file-appeared'),
                    'detail': 'manifest run touched files: calls=%r new/changed=%r' % (bad[:3], newfiles[:5])})
        # 4. per-request oracle
        expected = {}   # resolved abs path -> writes in request order
        if clean and not manifest:
            pre_bytes = {}
        else:
            pre_bytes = {os.path.join(ROOT, k): v for k, v in self._pre_files(world).items()}
        for (i, outcome, lstart, lend, isdir_obs) in p['outcomes']:
            op = ops[i]
            if op['op'] not in ('file', 'copy', 'swift'):
                continue
            window = p['log'][lstart:lend]
            isdir_before = bool(isdir_obs)
            P = self._effective(world, target, cwd, op, isdir_before)
            inside = is_inside(ROOT, P)
            faulted_here = fault is not None and any(
                len(e) > 1 and e[0] in ('FAULT', 'CRASH', 'torn') for e in window)
            st = '%s|%s|%s|%s|%s|%s|%s|%s' % (
                'paths' if paths else 'emit', op['op'], op.get('cls'), self._pclass(op), target_class(target, cwd, world),
                'manifest' if manifest else 'real', 'in' if inside else 'out',
                outcome if not fault else outcome + '/' + fault[1] + ':' + fault[2][0])
            res['states'].append(st)
            if not inside:
                muts = [e for e in window if e[0] in ('open_w', 'copy', 'copy2', 'copyfile', 'rename',
                                                      'replace', 'remove', 'rmtree')]
                muts += [e for e in window if e[0] in ('makedirs', 'mkdir') and not inside_rel(e[3])]
                if outcome == 'ok':
                    viol.append({'class': 'not-refused', 'key': 'entry:%s' % op['op'],
                                 'detail': 'request for %r (resolves to %r, outside %r) was not refused; mode=%s' % (
                                     op.get('path') or op.get('dst') or op.get('name'), P, ROOT,
                                     'manifest' if manifest else 'real')})
                elif muts:
                    viol.append({'class': 'wrote-before-refusal', 'key': 'entry:%s' % op['op'],
                                 'detail': 'request for %r refused only after %r' % (P, muts[:3])})
                else:
                    bump(res['probes'], 'escape_refused')
                continue
            # inside the root
            if manifest:
                continue
            if outcome != 'ok' or faulted_here:
                if op['op'] == 'file' and not paths and outcome != 'ok' and not fault:
                    viol.append({'class': 'verbatim', 'key': 'emit-script-raised:%s' % outcome,
                                 'detail': 'writing %r raised %s in a fault-free run; body=%s' % (
                                     op['path'], outcome, json.dumps(op['body'], ensure_ascii=True)[:600])})
                expected.setdefault(P, []).append(('unknown',))
                continue
            bump(res['probes'], 'inside_written')
            if op['op'] == 'file':
                expected.setdefault(P, []).append(('emit', op.get('mode', 'wb'), op['body']))
                if any(b['op'] == 'ph' for b in _flat(op['body'])):
                    bump(res['probes'], 'emit_placeholder_file')
            elif op['op'] == 'swift':
                expected.setdefault(P, []).append(('bytes', op['text'].encode('utf-8')))
            elif op['op'] == 'copy':
                if isdir_before:
                    bump(res['probes'], 'copy_into_dir')
                expected.setdefault(P, []).append(('bytes', SRC_FILES[op['src']]))
        # 5. contents of what landed (after a crash only containment is judged)
        if p['crashed']:
            return
        for P, writes in sorted(expected.items()):
            rel = os.path.relpath(P, scratch)
            try:
                with _real['open'](P, 'rb') as f:
                    got = f.read()
            except OSError as e:
                got = None
                err = e
            msg = self._check_content(pre_bytes.get(P), writes, got, tabs, res)
            if msg:
                viol.append({'class': 'verbatim' if got is not None else 'misplaced',
                             'key': msg[0], 'detail': '%r: %s' % (rel, msg[1])})

    def _pre_files(self, world):
        return {'pre/old.txt': b'old\n'} if world.root_exists else {}

    def _check_content(self, prev, writes, got, tabs, res):
        """writes: [('emit', mode, body) | ('bytes', data) | ('unknown',)] in request order."""
        base = prev or b''
        segs = []
        known = True
        for w in writes:
            if w[0] == 'unknown':
                known = False
            elif w[0] == 'bytes':
                base, segs, known = w[1], [], True
            else:
                _, mode, body = w
                if mode == 'wb':
                    base, segs, known = b'', [], True
                if known:
                    segs = segs + emitref.render(body, tabs)
        if not known:
            # a failed or faulted write was the last thing that happened to this path: the file
            # may be absent, torn or complete (stone does not promise atomic writes)
            bump(res['probes'], 'torn_file_seen')
            return None
        if got is None:
            return ('missing-file', 'the request succeeded but the file does not exist')
        if not got.startswith(base):
            return ('base-bytes', 'file does not start with the %d bytes it must keep: %r' % (
                len(base), got[:60]))
        if not segs:
            if got != base:
                return ('bytes', 'holds %r, expected %r' % (got[:60], base[:60]))
            return None
        try:
            text = got[len(base):].decode('utf-8')
        except UnicodeDecodeError as e:
            return ('not-utf8', 'file is not UTF-8: %s' % e)
        err = emitref.matches(segs, text)
        if err:
            return ('emit-mismatch', err)
        return None

    def _pclass(self, op):
        p = op.get('path') or op.get('dst') or op.get('name') or ''
        bits = []
        if p.startswith('/'):
            bits.append('abs')
        if '..' in p.split('/'):
            bits.append('dd')
        if p.endswith('/'):
            bits.append('ts')
        if '' in p.split('/')[1:-1] or p == '':
            bits.append('empty')
        if '.' in p.split('/'):
            bits.append('dot')
        bits.append('n%d' % min(4, len(p.split('/'))))
        return '+'.join(bits)

    def _manifest_vs_real(self, res, world, target, cwd, ops, tabs, pm):
        """Same script, real mode: the file set created must equal what the manifest run reported."""
        if pm['manifest_list'] is None or pm['exc'] or pm['crashed']:
            return
        if any(o[1] != 'ok' for o in pm['outcomes']):
            return
        # destinations that depend on directories the run itself creates are outside this comparison
        for op in ops:
            if op['op'] == 'copy':
                return
            if op['op'] in ('file', 'swift'):
                p = op['path'] if op['op'] == 'file' else op['name']
                if p.endswith('/') or p == '':
                    return
        world.build()
        before = read_tree(world.scratch)
        pr = self._execute(world, target, cwd, ops, tabs, False, plan=None)
        after = read_tree(world.scratch)
        if pr['exc'] or pr['crashed'] or any(o[1] != 'ok' for o in pr['outcomes']):
            return
        rootrel = os.path.relpath(world.ROOT, world.scratch)
        created = sorted(os.path.relpath(k, rootrel) for k in after
                         if (k not in before or before[k] != after[k]) and (k.startswith(rootrel + '/')))
        reported = sorted(pm['manifest_list'])
        bump(res['probes'], 'manifest_vs_real')
        if created != reported:
            res['violations'].append({'class': 'manifest-mismatch', 'key': 'scripted',
                                      'detail': 'manifest run reported %r, real run created %r' % (
                                          reported, created)})


def scrub(res, scratch):
    """The scratch directory's random name must not reach the event log or the replay file."""
    res.pop('_scrub', None)

    def fix(x):
        if isinstance(x, str):
            return x.replace(scratch, '$S').replace(scratch[1:], '$S')
        if isinstance(x, dict):
            return {k: fix(v) for k, v in x.items()}
        if isinstance(x, (list, tuple)):
            return [fix(v) for v in x]
        return x
    for k in ('events', 'trace', 'violations', 'sample', 'states', 'artefacts'):
        res[k] = fix(res[k])


def _flat(body):
    for b in body:
        yield b
        if 'body' in b:
            yield from _flat(b['body'])


def target_class(target, cwd, world):
    if target.startswith('/'):
        return 'abs' + ('/' if target.endswith('/') else '')
    return 'rel:' + target
