"""The choice tape: one integer sequence decides a whole run.

record mode: backed by random.Random(seed string); every draw is appended.
replay mode: values are read from a list (clamped to the bound, 0 once exhausted).
"""
import random


class Tape:
    def __init__(self, seed=None, replay=None):
        self.values = []          # ints actually used, in order
        self.bounds = []
        self._replay = None if replay is None else list(replay)
        self._pos = 0
        self._rng = random.Random(str(seed)) if replay is None else None
        self.seed = seed

    # -- primitive -----------------------------------------------------
    def draw(self, n, label=None):
        """int in [0, n). n >= 1."""
        if n <= 1:
            v = 0
            if self._replay is not None and self._pos < len(self._replay):
                self._pos += 1
        elif self._replay is not None:
            if self._pos < len(self._replay):
                v = self._replay[self._pos]
                self._pos += 1
                if v < 0:
                    v = 0
                if v >= n:
                    v = v % n
            else:
                v = 0
        else:
            v = self._rng.randrange(n)
        self.values.append(v)
        self.bounds.append(n)
        return v

    # -- derived -------------------------------------------------------
    def chance(self, num, den=100):
        """True with probability num/den.  0 (the shrink target) means False."""
        return self.draw(den) >= den - num

    def choice(self, seq):
        return seq[self.draw(len(seq))]

    def rng(self, lo, hi):
        """int in [lo, hi]."""
        return lo + self.draw(hi - lo + 1)

    def shuffle(self, seq):
        seq = list(seq)
        for i in range(len(seq) - 1, 0, -1):
            j = self.draw(i + 1)
            j = i - j  # draw 0 == keep in place (so an all-zero tape is the identity)
            seq[i], seq[j] = seq[j], seq[i]
        return seq

    def sample(self, seq, k):
        seq = list(seq)
        out = []
        for _ in range(min(k, len(seq))):
            out.append(seq.pop(self.draw(len(seq))))
        return out

    def weighted(self, pairs):
        """pairs: [(weight, value)].  The first entry is the shrink target."""
        total = sum(w for w, _ in pairs)
        x = self.draw(total)
        for w, v in pairs:
            if x < w:
                return v
            x -= w
        return pairs[-1][1]

    def subset(self, seq, num=50, den=100):
        return [x for x in seq if self.chance(num, den)]


def shrink(values, still_fails, budget=200, deadline=None):
    """Generic tape minimiser.

    values: list of ints; still_fails(list) -> bool (same violation class/key).
    Tries: cut tail, delete spans, zero values, halve values, decrement.
    """
    import time
    calls = [0]

    def ok(cand):
        if calls[0] >= budget:
            return False
        if deadline is not None and time.monotonic() > deadline:
            return False
        calls[0] += 1
        return still_fails(cand)

    cur = list(values)
    # cut tail
    lo, hi = 0, len(cur)
    while lo < hi:
        mid = (lo + hi) // 2
        if ok(cur[:mid]):
            hi = mid
        else:
            lo = mid + 1
    if hi < len(cur) and ok(cur[:hi]):
        cur = cur[:hi]
    changed = True
    while changed and calls[0] < budget:
        changed = False
        # zero blocks
        size = max(1, len(cur) // 2)
        while size >= 1:
            i = 0
            while i < len(cur):
                if any(cur[i:i + size]):
                    cand = cur[:i] + [0] * len(cur[i:i + size]) + cur[i + size:]
                    if ok(cand):
                        cur = cand
                        changed = True
                i += size
            size //= 2
        # delete blocks
        size = max(1, len(cur) // 4)
        while size >= 1:
            i = 0
            while i < len(cur):
                cand = cur[:i] + cur[i + size:]
                if ok(cand):
                    cur = cand
                    changed = True
                else:
                    i += size
            size //= 2
        # reduce values
        for i in range(len(cur)):
            v = cur[i]
            while v > 0:
                nv = v // 2
                cand = cur[:i] + [nv] + cur[i + 1:]
                if ok(cand):
                    cur = cand
                    v = nv
                    changed = True
                else:
                    if v - 1 != nv and v - 1 >= 0:
                        cand = cur[:i] + [v - 1] + cur[i + 1:]
                        if ok(cand):
                            cur = cand
                            v = v - 1
                            changed = True
                            continue
                    break
        while cur and cur[-1] == 0 and ok(cur[:-1]):
            cur = cur[:-1]
    return cur, calls[0]
