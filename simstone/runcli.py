"""Run the real stone.cli.main() in-process with argv/stdin/stdout/stderr swapped."""
import io
import logging
import sys

from . import use_repo

use_repo()
import stone.cli  # noqa: E402


class ShortReads(io.RawIOBase):
    """A raw byte stream that returns at most n bytes per read; n chosen per call by `sizes`."""

    def __init__(self, data, sizes):
        self._data = data
        self._pos = 0
        self._sizes = sizes    # callable() -> int >= 1

    def readable(self):
        return True

    def readinto(self, b):
        if self._pos >= len(self._data):
            return 0
        n = max(1, min(len(b), self._sizes()))
        chunk = self._data[self._pos:self._pos + n]
        b[:len(chunk)] = chunk
        self._pos += len(chunk)
        return len(chunk)


class _Stdin:
    def __init__(self, raw):
        self.buffer = io.BufferedReader(raw, buffer_size=16)


def run_cli(argv, stdin_bytes=None, read_sizes=None):
    """-> (exit_status, stdout_text, stderr_text, escaped_exception_or_None, api_or_None)

    exit_status: int from SystemExit, 0 when main() returns.  Exceptions other than SystemExit are
    returned (not raised); BaseExceptions that are not Exceptions (SimCrash) propagate.
    """
    old = sys.argv, sys.stdin, sys.stdout, sys.stderr
    out, err = io.StringIO(), io.StringIO()
    sys.argv = ['stone'] + list(argv)
    if stdin_bytes is not None:
        raw = ShortReads(stdin_bytes, read_sizes or (lambda: 1 << 16))
        sys.stdin = _Stdin(raw)
    sys.stdout, sys.stderr = out, err
    status, exc, api = 0, None, None
    root = logging.getLogger()
    handlers = list(root.handlers)
    try:
        try:
            api = stone.cli.main()
        except SystemExit as e:
            status = e.code if isinstance(e.code, int) else (0 if e.code is None else 1)
        except Exception as e:  # noqa
            exc = e
            status = -1
    finally:
        sys.argv, sys.stdin, sys.stdout, sys.stderr = old
        # logging.basicConfig in main() binds a handler to the swapped stderr; drop it again
        for h in list(root.handlers):
            if h not in handlers:
                root.removeHandler(h)
    return status, out.getvalue(), err.getvalue(), exc, api
