"""C07 - backwards-compatible spec changes keep old and new peers interoperable.

A fleet of nodes runs a chain of spec versions V0..VK (each arrow 1-4 compatible edits).  The
tape schedules sends, deliveries, stores, loads, upgrades and rollbacks, so that messages are in
flight and values are at rest across version changes; leaders decode strictly, clients leniently.
"""
import json

from ..driver import Engine, new_result, bump
from ..simfs import scratch_dir, rm_scratch
from .. import specgen, refcodec, fleetlib, evolve
from ..specgen import T, Struct, Union, Alias
from .c06 import runtime_frame


class Node:
    def __init__(self, name, version, role):
        self.name = name
        self.version = version
        self.role = role          # 'leader' (strict) | 'client' (lenient)
        self.inbox = []           # volatile
        self.store = []           # durable: (json text, type uid, writer version, value, sender type)


class C07Engine(Engine):
    property_id = 'C07'
    name = 'c07'
    level = 'exploration'
    unit_cap = 900
    det_sample = 3
    rule = ('a run generates a spec V0 and a chain V1..VK (K<=4), each step 1-4 edits from the evolution '
            "guide's backwards-compatible list (optional/defaulted field, tag on an open union, Void tag gets "
            'a type, subtype under a catch-all struct, route, rename, alias introduced/inlined) at tape-chosen '
            'sites; every version is generated with the real python_types backend and imported side by side. '
            '2-5 nodes then execute a tape-chosen schedule of send / deliver / store / load / upgrade / '
            'rollback events (<=400), so that messages cross version changes in flight and at rest. After each '
            'deliver and load the decoded value is compared with the view of the sent value under the reader\'s '
            'version (computed from the two spec models), in strict or lenient mode. Distinct = (edit kinds '
            'between writer and reader, nesting context of the edited site, direction, mode, outcome) and '
            '(writer version, reader version, event) patterns; same-version deliveries are the baseline and '
            'are not counted.')
    real_components = ['stone frontend + python_types backend for every version',
                       'generated classes of all versions side by side', 'stone_serializers / validators / base']
    stub_components = ['transport (in-flight queue), durable store, node lifecycle (upgrade, rollback)',
                       'view function computed from the spec models and the edit log']
    assumptions = ['annotations are not generated in fleet specs',
                   're-encoding by an old node of a value it decoded leniently is not judged',
                   'a tag changed from Void to a non-nullable type, read by the newer side, is unspecified']
    expected_probes = ['older_reader_lenient', 'older_reader_strict_reject', 'older_reader_strict_accept',
                       'newer_reader', 'in_flight_across_upgrade', 'load_after_upgrade', 'load_after_rollback',
                       'catch_all_tag', 'base_struct_fallback', 'void_payload_ignored', 'new_field_dropped']

    def prepare(self):
        from .. import runcli  # noqa
        import stone.backends.python_types  # noqa
        from stone.backends.python_rsrc import stone_serializers, stone_validators, stone_base  # noqa

    def plan(self, tier):
        if tier == 'smoke':
            return [('fleet', 6, 2)]
        if tier == 'thorough':
            return [('fleet', 15000, 10)]
        return [('fleet', 800, 4)]

    def run(self, tape, kind):
        res = new_result()
        scratch = scratch_dir('c07')
        self._versions = []
        try:
            self._run(tape, res, scratch)
        finally:
            for v in self._versions:
                v.close()
            rm_scratch(scratch)
        return res

    # ------------------------------------------------------------------
    def _run(self, tape, res, scratch):
        from stone.backends.python_rsrc import stone_serializers as ss, stone_validators as bv
        ev = res['events']
        m0 = specgen.gen_model(tape, fleetlib.fleet_cfg())
        evolve.assign_uids(m0)
        models = [m0]
        logs = [[]]
        K = tape.rng(1, 4)
        for k in range(K):
            mk, log = evolve.apply_edits(tape, models[-1], tape.rng(1, 4))
            models.append(mk)
            logs.append(log)
        vers = []
        for k, mk in enumerate(models):
            v = fleetlib.Version(mk, 'fleet_v%d' % k, scratch)
            self._versions.append(v)
            res['artefacts']['v%d' % k] = {fn: txt for fn, txt in specgen.render_reference(mk)}
            if v.error:
                res['rejected'] = True
                ev.append('build of V%d failed: %s' % (k, v.error.strip().split('\n')[-1][:300]))
                res['artefacts']['build_error'] = v.error[-800:]
                return
            vers.append(v)
        for k, log in enumerate(logs):
            for e in log:
                ev.append('V%d edit %s' % (k, json.dumps(e, sort_keys=True)))
                res['trace'].append({'version': k, **e})
        uid_maps = [evolve.by_uid(mk) for mk in models]
        roots = [d.uid for d in m0.types()]
        if not roots:
            res['rejected'] = True
            return
        # what changed, per uid, between consecutive versions (for biasing values and for state keys)
        edited = {}
        for k, log in enumerate(logs):
            for e in log:
                if 'uid' in e:
                    edited.setdefault(e['uid'], []).append((k, e))

        # ---- nodes ----------------------------------------------------------------------------
        n_nodes = tape.rng(2, 5)
        discipline = tape.choice(['leader-first', 'random', 'rollback'])
        strictness = tape.choice(['role', 'all-strict', 'all-lenient', 'role'])
        nodes = []
        for i in range(n_nodes):
            role = 'leader' if i == 0 else 'client'
            nodes.append(Node('N%d' % i, 0 if discipline != 'random' else tape.draw(K + 1), role))
        ev.append('fleet nodes=%d K=%d discipline=%s strictness=%s' % (n_nodes, K, discipline, strictness))
        in_flight = []
        seq = [0]

        def strict_for(node):
            if strictness == 'all-strict':
                return True
            if strictness == 'all-lenient':
                return False
            return node.role == 'leader'

        def prefer_for(version_index):
            pref = set()
            mk = models[version_index]
            ids = uid_maps[version_index]
            for k in range(1, version_index + 1):
                for e in logs[k]:
                    d = ids.get(e.get('uid'))
                    if d is None:
                        continue
                    if e['edit'] in ('add-optional-field', 'add-default-field'):
                        pref.add(('field', d.ns, d.name, e['field']))
                        # subtypes inherit the field
                        for o in mk.types():
                            if isinstance(o, Struct):
                                c = o
                                while c is not None and c is not d:
                                    c = mk.lookup(*c.parent) if c.parent else None
                                if c is d:
                                    pref.add(('field', o.ns, o.name, e['field']))
                    elif e['edit'] in ('add-tag', 'void-to-typed'):
                        pref.add(('tag', d.ns, d.name, e['tag']))
                        for o in mk.types():
                            if isinstance(o, Union):
                                c = o
                                while c is not None and c is not d:
                                    c = mk.lookup(*c.parent) if c.parent else None
                                if c is d:
                                    pref.add(('tag', o.ns, o.name, e['tag']))
                    elif e['edit'] == 'add-subtype':
                        sd = ids.get(e['subtype'])
                        if sd is not None:
                            pref.add(('subtype', sd.ns, sd.name))
            return pref
        prefs = [prefer_for(k) for k in range(K + 1)]

        def make_message(node):
            uid = roots[tape.draw(len(roots))]
            if edited and tape.chance(50):
                # bias to roots from which an edited type is reachable: cheap approximation = edited roots
                cand = [u for u in roots if u in edited]
                if cand:
                    uid = cand[tape.draw(len(cand))]
            d = uid_maps[node.version][uid]
            t = T('ref', ns=d.ns, name=d.name)
            try:
                value = refcodec.gen_value(tape, models[node.version], t, prefer=prefs[node.version])
            except refcodec.Uninhabitable:
                bump(res['probes'], 'uninhabitable_type_skipped')
                return None
            if value is None:
                return None
            ver = vers[node.version]
            text = ss.json_encode(ver.validator(t), ver.to_py(t, value))
            seq[0] += 1
            return {'id': seq[0], 'text': text, 'uid': uid, 'writer': node.version, 'value': value}

        def check(reader, msg, how):
            """Decode msg at reader's current version and judge it."""
            s, r = msg['writer'], reader.version
            ms, mr = models[s], models[r]
            ds, dr = uid_maps[s][msg['uid']], uid_maps[r][msg['uid']]
            ts, tr = T('ref', ns=ds.ns, name=ds.name), T('ref', ns=dr.ns, name=dr.name)
            strict = strict_for(reader)
            ver = vers[r]
            # expectation
            try:
                expected = ('ok', evolve.project(ms, mr, ts, tr, msg['value'], strict, uid_maps[r]))
            except evolve.Reject as e:
                expected = ('rej', str(e))
            except evolve.Unspecified as e:
                expected = ('unspec', str(e))
            try:
                obj = ss.json_decode(ver.validator(tr), msg['text'], strict=strict)
                outcome = ('value', ver.from_py(tr, obj))
            except bv.ValidationError as e:
                outcome = ('validation-error', str(e))
            except Exception as e:   # noqa
                outcome = ('foreign', e)
            res['steps'] += 1
            direction = 'same' if r == s else ('older-reader' if r < s else 'newer-reader')
            mode = 'strict' if strict else 'lenient'
            ev.append('%s msg%d uid=%s writer=V%d reader=%s@V%d %s -> expected %s, got %s' % (
                how, msg['id'], msg['uid'], s, reader.name, r, mode, expected[0], outcome[0]))
            between = []
            for k in range(min(s, r) + 1, max(s, r) + 1):
                between += [(e['edit'], e.get('ctx', '-')) for e in logs[k]]
            ctx = '%s, %s, writer V%d, reader V%d (%s), edits between: %s, wire %s' % (
                how, mode, s, r, direction, sorted(set(between))[:6], msg['text'][:300])
            if direction == 'older-reader':
                if not strict:
                    bump(res['probes'], 'older_reader_lenient')
                elif expected[0] == 'rej':
                    bump(res['probes'], 'older_reader_strict_reject')
                else:
                    bump(res['probes'], 'older_reader_strict_accept')
            elif direction == 'newer-reader':
                bump(res['probes'], 'newer_reader')
            if expected[0] == 'ok' and direction == 'older-reader' and not strict:
                txt = json.dumps(expected[1], default=repr)
                if '"other"' in txt and '"other"' not in msg['text']:
                    bump(res['probes'], 'catch_all_tag')
            key_edit = sorted(set(e for e, _ in between))[0] if between else 'none'
            if direction == 'older-reader' and expected[0] == 'ok' and outcome[0] == 'value':
                kinds = set(e for e, _ in between)
                if kinds & {'add-optional-field', 'add-default-field'} and '"nf' in msg['text']:
                    bump(res['probes'], 'new_field_dropped')
                if 'add-subtype' in kinds and '".tag": "st' in msg['text']:
                    bump(res['probes'], 'base_struct_fallback')
                if 'void-to-typed' in kinds and not strict:
                    bump(res['probes'], 'void_payload_ignored')
            if outcome[0] == 'foreign':
                exc = outcome[1]
                res['violations'].append({'class': 'foreign-exception',
                                          'key': '%s@%s' % (type(exc).__name__, runtime_frame(exc)),
                                          'detail': '%s: %s | %s' % (type(exc).__name__, str(exc)[:200], ctx)})
            elif expected[0] == 'ok':
                if outcome[0] != 'value':
                    res['violations'].append({
                        'class': 'rejected-compatible', 'key': '%s:%s:%s' % (direction, mode, key_edit),
                        'detail': 'must decode to %r but raised %s | %s' % (expected[1], outcome[1], ctx)})
                elif outcome[1] != expected[1]:
                    res['violations'].append({
                        'class': 'wrong-view', 'key': '%s:%s:%s' % (direction, mode, key_edit),
                        'detail': 'decoded %r, expected view %r | %s' % (outcome[1], expected[1], ctx)})
            elif expected[0] == 'rej':
                if direction == 'older-reader' and not strict:
                    # a compatible edit must never make a lenient old reader fail: the expectation itself
                    # says the guide's promise cannot hold for this message
                    res['violations'].append({
                        'class': 'lenient-old-reader-cannot-read', 'key': key_edit,
                        'detail': 'view says reject (%s) for a lenient older reader | %s' % (expected[1], ctx)})
                elif outcome[0] == 'value':
                    res['violations'].append({
                        'class': 'strict-accepted-unknown', 'key': '%s:%s' % (direction, key_edit),
                        'detail': 'strict reader must reject (%s) but decoded %r | %s' % (
                            expected[1], outcome[1], ctx)})
            if direction != 'same':
                for e, c in sorted(set(between))[:4]:
                    res['states'].append('%s|%s|%s|%s|%s/%s' % (e, c, direction, mode, expected[0], outcome[0]))
                res['states'].append('V%d->V%d|%s|%s' % (s, r, how, mode))
            return outcome

        # ---- schedule --------------------------------------------------------------------------------
        nevents = tape.rng(60, 400)
        upgrades_left = K * n_nodes + 2
        main_tape = tape
        for step in range(nevents):
            tape = main_tape.fork('e%d' % step)     # one independent segment per event
            if tape.absent:
                continue
            k = tape.weighted([(30, 'send'), (30, 'deliver'), (10, 'store'), (12, 'load'), (12, 'upgrade'),
                               (6, 'rollback')])
            node = nodes[tape.draw(n_nodes)]
            if k == 'send':
                msg = make_message(node)
                if msg is None:
                    continue
                to = nodes[tape.draw(n_nodes)]
                msg['to'] = to.name
                in_flight.append(msg)
                ev.append('send msg%d %s@V%d -> %s uid=%s' % (msg['id'], node.name, node.version, to.name, msg['uid']))
            elif k == 'deliver' and in_flight:
                msg = in_flight.pop(tape.draw(len(in_flight)))
                to = [n for n in nodes if n.name == msg['to']][0]
                if msg.get('crossed'):
                    bump(res['probes'], 'in_flight_across_upgrade')
                check(to, msg, 'deliver')
            elif k == 'store':
                msg = make_message(node)
                if msg is None:
                    continue
                node.store.append(msg)
                ev.append('store msg%d at %s@V%d' % (msg['id'], node.name, node.version))
            elif k == 'load' and node.store:
                msg = node.store[tape.draw(len(node.store))]
                if msg['writer'] < node.version:
                    bump(res['probes'], 'load_after_upgrade')
                elif msg['writer'] > node.version:
                    bump(res['probes'], 'load_after_rollback')
                check(node, msg, 'load')
            elif k == 'upgrade' and upgrades_left > 0:
                target = node
                if discipline == 'leader-first' and node.role != 'leader':
                    leader = nodes[0]
                    if leader.version <= node.version and leader.version < K:
                        target = leader
                if target.version < K:
                    target.version += 1
                    target.inbox = []
                    upgrades_left -= 1
                    for m in in_flight:
                        if m['to'] == target.name:
                            m['crossed'] = True
                    ev.append('upgrade %s -> V%d' % (target.name, target.version))
            elif k == 'rollback' and discipline != 'leader-first':
                if node.version > 0:
                    node.version -= 1
                    node.inbox = []
                    for m in in_flight:
                        if m['to'] == node.name:
                            m['crossed'] = True
                    ev.append('rollback %s -> V%d' % (node.name, node.version))
        # post-run history check: everything stored is loaded once more at the node's final version
        for node in nodes:
            for msg in node.store[:6]:
                check(node, msg, 'final-load')
        res['sample'] = {'K': K, 'nodes': n_nodes, 'discipline': discipline, 'strictness': strictness,
                         'edits': [[e['edit'] for e in log] for log in logs[1:]],
                         'events': nevents}
