#!/venv/bin/python
"""Generate N models, compile the reference layout, report rejection reasons."""
import sys, collections, traceback
sys.path.insert(0, '/verif')
from simstone import use_repo
use_repo()
from simstone.tape import Tape
from simstone import specgen
from stone.frontend.frontend import specs_to_ir
from stone.frontend.exception import InvalidSpec
N = int(sys.argv[1]) if len(sys.argv) > 1 else 300
rej = collections.Counter()
first = {}
ok = 0
for i in range(N):
    tape = Tape(seed='genstats:%d' % i)
    try:
        m = specgen.gen_model(tape)
        files = specgen.render_reference(m)
    except Exception as e:
        traceback.print_exc()
        print('GEN FAIL seed', i)
        break
    try:
        api = specs_to_ir(files)
        ok += 1
    except InvalidSpec as e:
        key = e.msg[:60]
        import re
        key = re.sub(r"'[^']*'", "'X'", key)
        rej[key] += 1
        first.setdefault(key, (i, e.path, e.lineno, e.msg, files))
    except Exception as e:
        key = 'EXC %s %s' % (type(e).__name__, str(e)[:50])
        rej[key] += 1
        first.setdefault(key, (i, None, None, traceback.format_exc(), files))
print('ok', ok, 'of', N)
for k, n in rej.most_common():
    i, path, lineno, msg, files = first[k]
    print('---', n, k, '| seed', i, path, lineno)
    print('   ', msg[:300])
    if '-v' in sys.argv:
        for fn, txt in files:
            if path is None or fn == path:
                lines = txt.split('\n')
                lo = max(0, (lineno or 1) - 6)
                for j, ln in enumerate(lines[lo:(lineno or 1) + 3]):
                    print('      %4d %s' % (lo + j + 1, ln))
