"""Generated-code side of the fleet: build one version of a spec with the real python_types backend,
import it under its own package name, convert between value models and generated instances."""
import datetime
import importlib
import os
import sys

from . import specgen
from .specgen import Struct, Union
from .simfs import write_file


class Version:
    """One generated version of a spec model, imported and ready to use."""

    def __init__(self, model, pkg, scratch):
        self.model = model
        self.pkg = pkg
        self.mods = {}
        self.cls_to_name = {}
        self.error = None
        self._build(scratch)

    def _build(self, scratch):
        from .runcli import run_cli
        specdir = os.path.join(scratch, self.pkg + '_specs')
        outdir = os.path.join(scratch, self.pkg)
        files = specgen.render_reference(self.model)
        paths = []
        for fn, txt in files:
            p = os.path.join(specdir, fn)
            write_file(p, txt)
            paths.append(p)
        st, out, err, exc, _ = run_cli(['python_types', outdir] + paths + ['--', '-p', self.pkg])
        if st != 0:
            self.error = (err or repr(exc))[-600:]
            return
        for name in [n for n in sys.modules if n == self.pkg or n.startswith(self.pkg + '.')]:
            del sys.modules[name]
        sys.path[:] = [p for p in sys.path if not (p.startswith('/dev/shm/') or p.startswith('/tmp/'))
                       or p == scratch]
        if scratch not in sys.path:
            sys.path.insert(0, scratch)
        importlib.invalidate_caches()
        try:
            for ns in self.model.namespaces:
                self.mods[ns] = importlib.import_module('%s.%s' % (self.pkg, ns))
        except Exception as e:   # noqa  (whether generated modules import is C09, not claimed)
            self.error = 'import of generated module failed: %s: %s' % (type(e).__name__, e)
            return
        for d in self.model.types():
            cls = getattr(self.mods[d.ns], d.name)
            self.cls_to_name[cls] = (d.ns, d.name)

    def close(self):
        """Forget the generated package (several runs may share one interpreter)."""
        for name in [n for n in sys.modules if n == self.pkg or n.startswith(self.pkg + '.')]:
            del sys.modules[name]
        importlib.invalidate_caches()

    # ------------------------------------------------------------------
    def validator(self, t):
        """The bv.Validator object for a type expression that is a direct user type or alias ref."""
        from stone.backends.python_rsrc import stone_validators as bv
        if t.kind == 'ref':
            return getattr(self.mods[t.ns], t.name + '_validator')
        if t.kind == 'nullable':
            return bv.Nullable(self.validator(t.inner))
        if t.kind == 'list':
            return bv.List(self.validator(t.item), **t.args)
        if t.kind == 'map':
            return bv.Map(self.validator(t.key), self.validator(t.val))
        cls = getattr(bv, t.name)
        if t.name == 'Timestamp':
            return cls(t.args['format'])
        return cls(**t.args)

    def to_py(self, t, v):
        m = self.model
        rt = m.resolve(t)
        if v is None:
            return None
        if rt.kind == 'nullable':
            return self.to_py(rt.inner, v)
        if rt.kind == 'prim':
            return v
        if rt.kind == 'list':
            return [self.to_py(rt.item, x) for x in v]
        if rt.kind == 'map':
            return {k: self.to_py(rt.val, x) for k, x in v['$m'].items()}
        if '$s' in v:
            d = m.lookup(*v['$s'])
            obj = getattr(self.mods[d.ns], d.name)()
            for f in m.all_fields(d):
                if f.name in v['f']:
                    setattr(obj, f.name, self.to_py(f.type, v['f'][f.name]))
            return obj
        d = m.lookup(*v['$u'])
        cls = getattr(self.mods[d.ns], d.name)
        g = [x for x in m.all_tags(d) if x.name == v['tag']]
        if not g or g[0].type is None:
            return cls(v['tag'])
        return cls(v['tag'], self.to_py(g[0].type, v['val']))

    def from_py(self, t, obj):
        """Generated instance -> canonical value model (defaults applied)."""
        from stone.backends.python_rsrc import stone_base as bb
        m = self.model
        rt = m.resolve(t)
        if obj is None:
            return None
        if rt.kind == 'nullable':
            return self.from_py(rt.inner, obj)
        if rt.kind == 'prim':
            if rt.name in ('Float32', 'Float64') and isinstance(obj, int) and not isinstance(obj, bool):
                return float(obj)
            return obj
        if rt.kind == 'list':
            return [self.from_py(rt.item, x) for x in obj]
        if rt.kind == 'map':
            return {'$m': {k: self.from_py(rt.val, x) for k, x in obj.items()}}
        if isinstance(obj, bb.Struct):
            ns, name = self.cls_to_name[type(obj)]
            d = m.lookup(ns, name)
            out = {}
            for f in m.all_fields(d):
                out[f.name] = self.from_py(f.type, getattr(obj, f.name))
            return {'$s': (ns, name), 'f': out}
        if isinstance(obj, bb.Union):
            d = m.lookup(*self.cls_to_name[type(obj)])
            g = [x for x in m.all_tags(d) if x.name == obj._tag]
            val = None
            if g and g[0].type is not None and obj._value is not None:
                val = self.from_py(g[0].type, obj._value)
            return {'$u': 'union', 'tag': obj._tag, 'val': val}
        raise TypeError('from_py: %r for %r' % (obj, rt))


def fleet_cfg(**kw):
    base = dict(max_ns=2, max_types=6, routes=True, annotations=False, custom_annotations=False,
                examples=False, patches=False, stone_cfg=False, docs=False, min_one_tag=True, nullable_aliases=True, nullable_alias_pct=30, alias_ref_pct=35,
                deep_inherit_pct=60, uchild_weight=16)
    base.update(kw)
    return specgen.Cfg(**base)
