"""simstone: deterministic simulation with fault injection for dropbox/stone.

See /verif/DESIGN.md.  Everything a run does is a pure function of
(code under test, choice tape, engine config).
"""
import os
import sys

REPO = os.environ.get('VERIF_REPO', '/repo')
VERIF = os.path.dirname(os.path.dirname(os.path.abspath(__file__)))


def use_repo():
    """Make sure `import stone` resolves to the tree under test."""
    if sys.path[0] != REPO:
        try:
            sys.path.remove(REPO)
        except ValueError:
            pass
        sys.path.insert(0, REPO)
    mod = sys.modules.get('stone')
    if mod is not None:
        path = os.path.dirname(os.path.abspath(mod.__file__))
        if path != os.path.join(os.path.abspath(REPO), 'stone'):
            raise RuntimeError('stone imported from %s, expected %s' % (path, REPO))
