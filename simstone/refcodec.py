"""Reference codec written from docs/json_serializer.rst and docs/evolve_spec.rst against the spec model.

Value model (version independent):
  primitives    int / float / bool / str / bytes / datetime
  list          [v, ...]
  map           {'$m': {key: v}}
  struct        {'$s': (ns, name), 'f': {field: v}}      only fields that are set
  union         {'$u': (ns, name), 'tag': str, 'val': v or None}
  None          unset nullable

gen_value   : a valid value for a type expression
canon       : canonical form for comparison (defaults applied, unset nullable = None)
ref_encode  : reference JSON-compatible encoding
ref_decode  : ('ok', canonical value) | ('rej', why) | ('unspec', why)
"""
import base64
import datetime
import math
import re

from . import specgen
from .specgen import Struct, Union, Alias, T, INT_RANGES, FLOAT32_MAX, PATTERNS

CATCH_ALL = 'other'


class Uninhabitable(Exception):
    """gen_value found no finite value (a required cycle the generators failed to avoid)."""


# ----------------------------------------------------------------------------------------
# helpers over the model

def res(model, t):
    """resolve aliases at the top of a type expression"""
    return model.resolve(t)


def lookup(model, t):
    return model.lookup(t.ns, t.name)


def is_tree_base(model, d):
    return isinstance(d, Struct) and d.subtypes is not None


def struct_has_required(model, s):
    for f in model.all_fields(s):
        _, nullable = model.unwrap(f.type)
        if not nullable and f.default is None:
            return True
    return False


def field_default(model, f):
    """canonical default value of a field (or None)"""
    if f.default is None:
        return None
    if f.default[0] == 'lit':
        inner, _ = model.unwrap(f.type)
        v = f.default[1]
        if inner.kind == 'prim' and inner.name in ('Float32', 'Float64'):
            v = float(v)
        return v
    inner, _ = model.unwrap(f.type)
    return {'$u': 'union', 'tag': f.default[1], 'val': None}


def has_catch_all(model, u):
    return not u.closed


# ----------------------------------------------------------------------------------------
# value generation

def gen_value(tape, model, t, depth=0, prefer=None):
    """prefer: optional set of (kind, ns, name, member) sites the caller wants exercised."""
    if depth > 60:
        raise Uninhabitable('no finite value found for %r' % (t,))
    rt = res(model, t)
    if rt.kind == 'nullable':
        if depth > 3 or tape.chance(30):
            return None
        return gen_value(tape, model, rt.inner, depth, prefer)
    if rt.kind == 'prim':
        g = specgen.Gen(tape, specgen.Cfg())
        g.m = model
        return g.gen_value(rt)
    if rt.kind == 'list':
        lo = rt.args.get('min_items', 0)
        hi = rt.args.get('max_items', 4)
        n = lo if depth > 2 else tape.choice([lo, hi, min(hi, lo + 1), min(hi, 2)])
        n = max(lo, min(hi, n))
        return [gen_value(tape, model, rt.item, depth + 1, prefer) for _ in range(n)]
    if rt.kind == 'map':
        out = {}
        for i in range(0 if depth > 2 else tape.rng(0, 2)):
            g = specgen.Gen(tape, specgen.Cfg())
            k = g.gen_value(rt.key)
            if len(k) < rt.key.args.get('min_length', 0):
                k = 'k%d' % i
            out[k] = gen_value(tape, model, rt.val, depth + 1, prefer)
        return {'$m': out}
    d = lookup(model, rt)
    if isinstance(d, Struct):
        if d.subtypes:
            subs = model.subtypes_of(d)
            tag, sub = subs[tape.draw(len(subs))]
            if prefer:
                for i, (tg, s) in enumerate(subs):
                    if ('subtype', s.ns, s.name) in prefer and tape.chance(80):
                        sub = s
            d = sub
        fields = {}
        for f in model.all_fields(d):
            _, nullable = model.unwrap(f.type)
            optional = nullable or f.default is not None
            want = prefer and depth <= 3 and ('field', d.ns, d.name, f.name) in prefer
            if optional and not want and (depth > 3 or tape.chance(45)):
                continue
            if optional and want and tape.chance(15):
                continue
            if f.default is not None and f.default[0] == 'tag' and not tape.chance(50):
                continue
            v = gen_value(tape, model, f.type, depth + 1, prefer)
            if v is None:
                continue
            fields[f.name] = v
        return {'$s': (d.ns, d.name), 'f': fields}
    tags = model.all_tags(d)
    if not tags:
        return None     # no value of this union can be sent (the catch-all tag is receive-only)
    if depth > 3:
        simple = [g for g in tags if g.type is None or model.unwrap(g.type)[1]
                  or model.unwrap(g.type)[0].kind == 'prim']
        tags = simple or tags
    g = tags[tape.draw(len(tags))]
    if prefer and depth <= 3:
        for cand in tags:
            if ('tag', d.ns, d.name, cand.name) in prefer and tape.chance(80):
                g = cand
    val = None if g.type is None else gen_value(tape, model, g.type, depth + 1, prefer)
    return {'$u': (d.ns, d.name), 'tag': g.name, 'val': val}


# ----------------------------------------------------------------------------------------
# canonical form

def canon(model, t, v):
    rt = res(model, t)
    if rt.kind == 'nullable':
        return None if v is None else canon(model, rt.inner, v)
    if rt.kind == 'prim':
        if rt.name in ('Float32', 'Float64') and isinstance(v, int) and not isinstance(v, bool):
            return float(v)
        return v
    if rt.kind == 'list':
        return [canon(model, rt.item, x) for x in v]
    if rt.kind == 'map':
        return {'$m': {k: canon(model, rt.val, x) for k, x in v['$m'].items()}}
    if '$s' in v:
        d = model.lookup(*v['$s'])
        out = {}
        for f in model.all_fields(d):
            if f.name in v['f']:
                out[f.name] = canon(model, f.type, v['f'][f.name])
            else:
                out[f.name] = field_default(model, f)
        return {'$s': tuple(v['$s']), 'f': out}
    d = model.lookup(*v['$u'])
    tagd = [g for g in model.all_tags(d) if g.name == v['tag']]
    val = None
    if tagd and tagd[0].type is not None and v['val'] is not None:
        val = canon(model, tagd[0].type, v['val'])
        inner, nullable = model.unwrap(tagd[0].type)
        if nullable and isinstance(v['val'], dict) and '$s' in v['val'] and not v['val']['f']:
            d2 = model.lookup(*v['val']['$s'])
            if not (model.lookup(inner.ns, inner.name).subtypes):
                # "impossible to differentiate between an unset value and a value [with no
                # fields set] ... the deserializer should return a null or unset value"
                val = None
    # a union value is identified by its tag and payload; the declaring union may be a parent
    return {'$u': 'union', 'tag': v['tag'], 'val': val}


# ----------------------------------------------------------------------------------------
# reference encoder

class Dialect:
    """Knobs a foreign but conforming sender may turn (all are declared valid by the spec)."""

    def __init__(self, explicit_null=False, void_as_string=False, int_for_float=False,
                 reverse_keys=False):
        self.explicit_null = explicit_null
        self.void_as_string = void_as_string
        self.int_for_float = int_for_float
        self.reverse_keys = reverse_keys


PLAIN = Dialect()


def _order(d, dialect):
    if dialect.reverse_keys:
        return dict(reversed(list(d.items())))
    return d


def ref_encode(model, t, v, dialect=PLAIN, top=True):
    rt = res(model, t)
    if rt.kind == 'nullable':
        if v is None:
            return None
        return ref_encode(model, rt.inner, v, dialect, False)
    if rt.kind == 'prim':
        n = rt.name
        if n == 'Bytes':
            return base64.b64encode(v).decode('ascii')
        if n == 'Timestamp':
            return v.strftime(rt.args['format'])
        if n in ('Float32', 'Float64') and dialect.int_for_float and float(v).is_integer() \
                and abs(v) < 2 ** 53:
            return int(v)
        return v
    if rt.kind == 'list':
        return [ref_encode(model, rt.item, x, dialect, False) for x in v]
    if rt.kind == 'map':
        return _order({k: ref_encode(model, rt.val, x, dialect, False) for k, x in v['$m'].items()}, dialect)
    d = lookup(model, rt)
    if isinstance(d, Struct):
        actual = model.lookup(*v['$s'])
        out = {}
        if d.subtypes:
            tag = [tg for tg, s in model.subtypes_of(d) if s is actual]
            out['.tag'] = tag[0]
        out.update(_struct_fields(model, actual, v, dialect))
        return _order(out, dialect) if not d.subtypes else out
    return _encode_union(model, d, v, dialect)


def _struct_fields(model, s, v, dialect):
    out = {}
    for f in model.all_fields(s):
        if f.name in v['f']:
            out[f.name] = ref_encode(model, f.type, v['f'][f.name], dialect, False)
        else:
            _, nullable = model.unwrap(f.type)
            if nullable and dialect.explicit_null:
                out[f.name] = None
    return out


def _encode_union(model, u, v, dialect):
    tag = v['tag']
    g = [x for x in model.all_tags(u) if x.name == tag]
    if not g or g[0].type is None:
        if dialect.void_as_string:
            return tag
        return {'.tag': tag}
    g = g[0]
    inner, nullable = model.unwrap(g.type)
    if v['val'] is None:
        return {'.tag': tag}
    if inner.kind == 'ref':
        d = lookup(model, inner)
        if isinstance(d, Struct) and not d.subtypes:
            out = {'.tag': tag}
            out.update(_struct_fields(model, model.lookup(*v['val']['$s']), v['val'], dialect))
            return out
    return {'.tag': tag, tag: ref_encode(model, g.type, v['val'], dialect, False)}


# ----------------------------------------------------------------------------------------
# reference decoder / validator

class Rej(Exception):
    pass


class Unspec(Exception):
    pass


def ref_decode(model, t, doc, strict):
    """-> ('ok', canonical value) | ('rej', reason) | ('unspec', reason).
    A definite violation anywhere wins over unspecified parts elsewhere."""
    state = {'unspec': None}
    try:
        v = _dec(model, t, doc, strict, state)
    except Rej as e:
        return 'rej', str(e)
    if state['unspec']:
        return 'unspec', state['unspec']
    return 'ok', v


def _unspec(state, why):
    if state['unspec'] is None:
        state['unspec'] = why


def _b64_ok(s):
    return re.fullmatch(r'(?:[A-Za-z0-9+/]{4})*(?:[A-Za-z0-9+/]{2}==|[A-Za-z0-9+/]{3}=)?', s) is not None


def _dec(model, t, doc, strict, st):
    rt = res(model, t)
    if rt.kind == 'nullable':
        if doc is None:
            return None
        return _dec(model, rt.inner, doc, strict, st)
    if rt.kind == 'prim':
        return _dec_prim(rt, doc, st)
    if rt.kind == 'list':
        if not isinstance(doc, list):
            raise Rej('expected array for list')
        if 'min_items' in rt.args and len(doc) < rt.args['min_items']:
            raise Rej('fewer than min_items')
        if 'max_items' in rt.args and len(doc) > rt.args['max_items']:
            raise Rej('more than max_items')
        return [_dec(model, rt.item, x, strict, st) for x in doc]
    if rt.kind == 'map':
        if not isinstance(doc, dict):
            raise Rej('expected object for map')
        out = {}
        for k, x in doc.items():
            _dec_prim(rt.key, k, st)
            out[k] = _dec(model, rt.val, x, strict, st)
        return {'$m': out}
    d = lookup(model, rt)
    if isinstance(d, Struct):
        if d.subtypes:
            return _dec_tree(model, d, doc, strict, st)
        return _dec_struct(model, d, doc, strict, st)
    return _dec_union(model, d, doc, strict, st)


def _dec_prim(p, doc, st):
    n, a = p.name, p.args
    if n == 'String':
        if not isinstance(doc, str):
            raise Rej('expected string')
        if 'min_length' in a and len(doc) < a['min_length']:
            raise Rej('shorter than min_length')
        if 'max_length' in a and len(doc) > a['max_length']:
            raise Rej('longer than max_length')
        if 'pattern' in a:
            # the runtime validator anchors the pattern at both ends (\A(?:p)\Z; test_python_gen pins 'abc_'
            # as invalid for a lower-case pattern): the whole string must match, a trailing newline included
            if re.fullmatch('(?:' + a['pattern'] + ')', doc) is None:
                raise Rej('pattern does not match')
        return doc
    if n in INT_RANGES:
        if isinstance(doc, bool):
            raise Rej('boolean where an integer is expected')
        if isinstance(doc, float):
            if doc.is_integer():
                _unspec(st, 'float with integral value for an integer')
                doc = int(doc)
            else:
                raise Rej('non-integral number for an integer')
        if not isinstance(doc, int):
            raise Rej('expected number')
        lo, hi = INT_RANGES[n]
        lo = max(lo, a.get('min_value', lo))
        hi = min(hi, a.get('max_value', hi))
        if not (lo <= doc <= hi):
            raise Rej('integer out of range')
        return doc
    if n in ('Float32', 'Float64'):
        if isinstance(doc, bool):
            raise Rej('boolean where a number is expected')
        if not isinstance(doc, (int, float)):
            raise Rej('expected number')
        try:
            f = float(doc)
        except OverflowError:
            _unspec(st, 'number beyond double range')
            return doc
        if math.isnan(f) or math.isinf(f):
            _unspec(st, 'NaN or Infinity')
            return f
        lo = a.get('min_value')
        hi = a.get('max_value')
        if n == 'Float32':
            lo = -FLOAT32_MAX if lo is None else max(lo, -FLOAT32_MAX)
            hi = FLOAT32_MAX if hi is None else min(hi, FLOAT32_MAX)
        if (lo is not None and f < lo) or (hi is not None and f > hi):
            raise Rej('float out of range')
        return f
    if n == 'Boolean':
        if not isinstance(doc, bool):
            raise Rej('expected boolean')
        return doc
    if n == 'Bytes':
        if not isinstance(doc, str):
            raise Rej('expected base64 string')
        if not _b64_ok(doc):
            _unspec(st, 'not canonical base64')
            return doc
        return base64.b64decode(doc)
    if n == 'Timestamp':
        if not isinstance(doc, str):
            raise Rej('expected timestamp string')
        try:
            dt = datetime.datetime.strptime(doc, a['format'])
        except ValueError:
            raise Rej('timestamp does not match format')
        try:
            if dt.strftime(a['format']) != doc:
                _unspec(st, 'timestamp is not in canonical form')
        except ValueError:
            _unspec(st, 'timestamp not printable')
        return dt
    raise AssertionError(n)


def _dec_struct(model, s, doc, strict, st, ignore=('.tag',)):
    if doc is None and not struct_has_required(model, s):
        _unspec(st, 'null for a struct without required fields')
        return {'$s': (s.ns, s.name), 'f': {f.name: field_default(model, f) for f in model.all_fields(s)}}
    if not isinstance(doc, dict):
        raise Rej('expected object for struct')
    fields = model.all_fields(s)
    names = set(f.name for f in fields)
    for k in doc:
        if k in names:
            continue
        if k.startswith('.tag'):
            if k not in ignore:
                _unspec(st, 'a .tag-like key inside a struct')
            elif '.tag' in doc and ignore == ():
                _unspec(st, 'a .tag key inside a plain struct')
            continue
        if strict:
            raise Rej('unknown field %r in strict mode' % k)
    out = {}
    pending_unspec = None
    for f in fields:
        inner, nullable = model.unwrap(f.type)
        if f.name in doc:
            if doc[f.name] is None and not nullable:
                if inner.kind == 'ref':
                    d0 = lookup(model, inner)
                    if isinstance(d0, Struct) and not struct_has_required(model, d0):
                        # the runtime reads null as "all defaults" for such structs (route arguments rely on
                        # it at the top level); the docs do not say either way for nested fields
                        pending_unspec = 'null for a field whose struct type has no required fields'
                        out[f.name] = {'$s': (d0.ns, d0.name),
                                       'f': {g.name: field_default(model, g) for g in model.all_fields(d0)}}
                        continue
                raise Rej('null for non-nullable field %r' % f.name)
            out[f.name] = _dec(model, f.type, doc[f.name], strict, st)
        elif nullable:
            out[f.name] = None
        elif f.default is not None:
            out[f.name] = field_default(model, f)
        else:
            # a required field is missing
            if inner.kind == 'ref':
                d = lookup(model, inner)
                if isinstance(d, Struct) and not struct_has_required(model, d):
                    pending_unspec = 'missing field %r whose struct type has no required fields' % f.name
                    out[f.name] = {'$s': (d.ns, d.name),
                                   'f': {g.name: field_default(model, g) for g in model.all_fields(d)}}
                    continue
            raise Rej('missing required field %r' % f.name)
    if pending_unspec:
        _unspec(st, pending_unspec)
    return {'$s': (s.ns, s.name), 'f': out}


def _dec_tree(model, base, doc, strict, st):
    if not isinstance(doc, dict):
        raise Rej('expected object for struct with enumerated subtypes')
    if '.tag' not in doc:
        raise Rej("missing '.tag'")
    tag = doc['.tag']
    if not isinstance(tag, str):
        raise Rej("'.tag' is not a string")
    for tg, sub in model.subtypes_of(base):
        if tg == tag:
            return _dec_struct(model, sub, doc, strict, st)
    if strict:
        raise Rej('unknown subtype in strict mode')
    if base.subtypes['closed']:
        raise Rej('unknown subtype and the base is not a catch-all')
    # fall back to the base struct with the base's fields; everything else is ignored
    return _dec_struct(model, base, doc, False, st)


def _dec_union(model, u, doc, strict, st):
    tags = {g.name: g for g in model.all_tags(u)}
    other = {'$u': 'union', 'tag': CATCH_ALL, 'val': None}
    if isinstance(doc, str):
        tag = doc
        if tag == CATCH_ALL and not u.closed:
            raise Rej('the catch-all tag itself')
        if tag not in tags:
            if u.closed or strict:
                raise Rej('unknown tag')
            return other
        g = tags[tag]
        if g.type is None:
            return {'$u': 'union', 'tag': tag, 'val': None}
        if model.unwrap(g.type)[1]:
            _unspec(st, 'bare string for a nullable member')
            return {'$u': 'union', 'tag': tag, 'val': None}
        raise Rej('bare string for a member that needs a value')
    if not isinstance(doc, dict):
        raise Rej('expected string or object for union')
    if '.tag' not in doc:
        raise Rej("missing '.tag'")
    tag = doc['.tag']
    if not isinstance(tag, str):
        raise Rej("'.tag' is not a string")
    if tag == CATCH_ALL and not u.closed:
        raise Rej('the catch-all tag itself')
    if tag not in tags:
        if u.closed or strict:
            raise Rej('unknown tag')
        return other
    g = tags[tag]
    extra = [k for k in doc if k not in ('.tag', tag)]
    if g.type is None:
        if strict:
            if tag in doc and doc[tag] is not None:
                raise Rej('payload on a void tag in strict mode')
            if extra:
                _unspec(st, 'extra keys next to a void tag in strict mode')
            elif tag in doc:
                _unspec(st, 'explicit null on a void tag')
        return {'$u': 'union', 'tag': tag, 'val': None}
    inner, nullable = model.unwrap(g.type)
    plain_struct = False
    if inner.kind == 'ref':
        d = lookup(model, inner)
        plain_struct = isinstance(d, Struct) and not d.subtypes
    if plain_struct:
        if nullable and len(doc) == 1:
            return {'$u': 'union', 'tag': tag, 'val': None}
        if nullable and not struct_has_required(model, d) and all(k.startswith('.tag') for k in doc):
            _unspec(st, 'cannot tell unset from empty struct')
        val = _dec_struct(model, d, doc, strict, st, ignore=('.tag',))
        return {'$u': 'union', 'tag': tag, 'val': val}
    if extra:
        _unspec(st, 'extra keys next to a keyed union payload')
    if tag not in doc:
        if nullable:
            return {'$u': 'union', 'tag': tag, 'val': None}
        raise Rej('missing payload for tag %r' % tag)
    if doc[tag] is None and not nullable:
        raise Rej('null payload for a non-nullable member')
    if doc[tag] is None:
        # the docs allow leaving the key out; an explicit null is not mentioned for union members
        _unspec(st, 'explicit null payload for a nullable union member')
        return {'$u': 'union', 'tag': tag, 'val': None}
    return {'$u': 'union', 'tag': tag, 'val': _dec(model, g.type, doc[tag], strict, st)}
