"""Fork-per-unit process pool.

A *unit* is a fixed list of run ids, defined by the engine's plan and never by
the number of workers, executed in a child forked from the (pristine) check
process.  Results come back over a pipe as pickles.  The parent enforces a
wall-clock cap per unit; a unit that exceeds it is reported as 'timeout' and is
never confused with success.
"""
import faulthandler
import os
import pickle
import select
import signal
import sys
import time
import traceback


def _child(fd, fn, unit, cap):
    code = 0
    try:
        faulthandler.enable()
        if cap:
            faulthandler.dump_traceback_later(cap, exit=True)
        try:
            out = ('ok', fn(unit))
        except BaseException:  # noqa
            out = ('error', traceback.format_exc())
        data = pickle.dumps(out, protocol=4)
        with os.fdopen(fd, 'wb') as f:
            f.write(data)
    except BaseException:  # noqa
        code = 3
        try:
            traceback.print_exc()
        except Exception:
            pass
    finally:
        try:
            sys.stdout.flush()
            sys.stderr.flush()
        except Exception:
            pass
        os._exit(code)


def run_units(fn, units, workers=None, cap=120):
    """Yield (unit, status, payload) in completion order.

    status: 'ok' (payload = fn(unit)), 'error' (payload = traceback text),
    'timeout', 'died' (payload = text).
    """
    workers = workers or min(16, os.cpu_count() or 1)
    pending = list(reversed(list(units)))
    live = {}   # fd -> (pid, unit, start, chunks)
    while pending or live:
        while pending and len(live) < workers:
            unit = pending.pop()
            r, w = os.pipe()
            sys.stdout.flush()
            sys.stderr.flush()
            pid = os.fork()
            if pid == 0:
                os.close(r)
                for fd in list(live):
                    try:
                        os.close(fd)
                    except OSError:
                        pass
                _child(w, fn, unit, cap)
            os.close(w)
            live[r] = (pid, unit, time.monotonic(), [])
        if not live:
            continue
        ready, _, _ = select.select(list(live), [], [], 1.0)
        now = time.monotonic()
        for fd in ready:
            pid, unit, start, chunks = live[fd]
            data = os.read(fd, 1 << 20)
            if data:
                chunks.append(data)
                continue
            os.close(fd)
            del live[fd]
            _, st = os.waitpid(pid, 0)
            blob = b''.join(chunks)
            if blob:
                try:
                    status, payload = pickle.loads(blob)
                except Exception:
                    status, payload = 'died', 'undecodable result (exit status %r)' % st
            else:
                if cap and now - start >= cap - 1:
                    status, payload = 'timeout', 'unit exceeded %ss (faulthandler exit)' % cap
                else:
                    status, payload = 'died', 'no result (wait status %r)' % st
            yield unit, status, payload
        if cap:
            for fd in list(live):
                pid, unit, start, chunks = live[fd]
                if now - start > cap + 15:
                    try:
                        os.kill(pid, signal.SIGKILL)
                    except OSError:
                        pass
                    os.close(fd)
                    del live[fd]
                    os.waitpid(pid, 0)
                    yield unit, 'timeout', 'unit exceeded %ss' % cap


def run_one(fn, unit, cap=120):
    for _, status, payload in run_units(fn, [unit], workers=1, cap=cap):
        return status, payload
    return 'died', 'no result'
