"""SimProc child: one simulated OS process.

  PYTHONHASHSEED=<s> setarch x86_64 -R /venv/bin/python -m simstone.proc <job.json>

The job is a history: an ordered list of steps, each one invocation of the real stone.cli.main()
under SimFS with its own cwd, argv and optional fault plan.  Before anything of stone is imported
the heap is perturbed by `addr_seed` (repeatable because ASLR is off).  Prints one JSON line.
"""
import json
import os
import sys


def _aslr_off():
    try:
        with open('/proc/self/personality') as f:
            return bool(int(f.read().strip(), 16) & 0x0040000)
    except Exception:
        return False


def _install_clock(epoch):
    """The simulated wall clock: every way Python code reads the time answers `epoch` (advancing by one
    millisecond per reading, so that code measuring durations does not divide by zero)."""
    import time
    import datetime
    state = [float(epoch)]

    def now():
        state[0] += 0.001
        return state[0]
    real_localtime, real_gmtime, real_strftime, real_ctime = time.localtime, time.gmtime, time.strftime, time.ctime
    time.time = now
    time.time_ns = lambda: int(now() * 1e9)
    time.localtime = lambda secs=None: real_localtime(now() if secs is None else secs)
    time.gmtime = lambda secs=None: real_gmtime(now() if secs is None else secs)
    time.ctime = lambda secs=None: real_ctime(now() if secs is None else secs)
    time.strftime = lambda fmt, t=None: real_strftime(fmt, real_localtime(now()) if t is None else t)

    class SimDateTime(datetime.datetime):
        @classmethod
        def now(cls, tz=None):
            return cls.fromtimestamp(now(), tz)

        @classmethod
        def utcnow(cls):
            return cls.utcfromtimestamp(now())

        @classmethod
        def today(cls):
            return cls.fromtimestamp(now())

    class SimDate(datetime.date):
        @classmethod
        def today(cls):
            return cls.fromtimestamp(now())
    datetime.datetime = SimDateTime
    datetime.date = SimDate


def run_job(job):
    if job.get('clock') is not None:
        _install_clock(job['clock'])
    if job.get('umask') is not None:
        os.umask(int(job['umask']))
    k = int(job.get('addr_seed', 0))
    # address seed: allocate and partly free a tape-chosen amount of garbage
    junk = []
    for i in range(k):
        junk.append([object() for _ in range(257 + 31 * (i % 7))])
        junk.append(bytearray(4096 * (1 + i % 3)))
        junk.append({j: str(j) for j in range(50 + i % 11)})
    keep = junk[::2]
    del junk

    from simstone.simfs import SimFS, SimCrash
    from simstone.runcli import run_cli

    out = {'aslr_off': _aslr_off(), 'hashseed': os.environ.get('PYTHONHASHSEED'), 'steps': []}
    for step in job['steps']:
        os.chdir(step['cwd'])
        plan = {int(a): tuple(b) for a, b in (step.get('fault') or {}).items()}
        wplan = {int(a): tuple(b) for a, b in (step.get('fault_w') or {}).items()}
        oplan = {int(a): tuple(b) for a, b in (step.get('fault_o') or {}).items()}
        fs = SimFS(job['scratch'], plan=plan, wplan=wplan, oplan=oplan)
        crashed = False
        st, so, se, exc = None, '', '', None
        inject = step.get('inject')
        undo = None
        if inject == 'generate-raises':
            # an exception inside generate(): the backend run dies half-way, whatever state it
            # leaves behind becomes part of the process history
            import stone.backend as sb
            orig = sb.Backend.output_to_relative_path

            calls = [0]
            nth = int(step.get('inject_at', 0))

            def boom(self, *a, **kw):
                calls[0] += 1
                if calls[0] > nth:
                    raise RuntimeError('injected failure inside generate')
                return orig(self, *a, **kw)
            sb.Backend.output_to_relative_path = boom
            undo = lambda: setattr(sb.Backend, 'output_to_relative_path', orig)  # noqa
        try:
            with fs:
                try:
                    st, so, se, exc, _ = run_cli(step['argv'], stdin_bytes=(
                        step['stdin'].encode('utf-8') if step.get('stdin') is not None else None))
                except SimCrash:
                    crashed = True
        finally:
            if undo:
                undo()
        out['steps'].append({'status': st, 'crashed': crashed,
                             'exc': None if exc is None else '%s: %s' % (type(exc).__name__, exc),
                             'tb': None if exc is None else ''.join(__import__('traceback').format_exception(type(exc), exc, exc.__traceback__))[-3000:],
                             'stdout': so[-4000:], 'stderr': se[-3000:], 'calls': fs.calls,
                             'faults': fs.fault_counts})
    del keep
    return out


def zygote():
    """Import everything once, then fork one grandchild per job line read from stdin.
    A grandchild is a simulated OS process: same hash seed and (ASLR off) same address layout as a
    fresh interpreter that has imported stone, its own heap perturbation, its own history."""
    import importlib
    from simstone import runcli, simfs, backends  # noqa
    for b in backends.BACKENDS:
        importlib.import_module('stone.backends.' + b)
    sys.stdout.write('ZYGOTE-READY\n')
    sys.stdout.flush()
    for line in sys.stdin:
        line = line.strip()
        if not line:
            continue
        with open(line, encoding='utf-8') as f:
            job = json.load(f)
        r, w = os.pipe()
        pid = os.fork()
        if pid == 0:
            os.close(r)
            code = 0
            try:
                out = run_job(job)
                data = json.dumps(out)
            except BaseException as e:  # noqa
                import traceback
                data = json.dumps({'error': 'job failed: %s' % traceback.format_exc()[-1500:]})
                code = 1
            with os.fdopen(w, 'w') as f:
                f.write(data)
            os._exit(code)
        os.close(w)
        with os.fdopen(r) as f:
            data = f.read()
        os.waitpid(pid, 0)
        sys.stdout.write('SIMPROC ' + (data or json.dumps({'error': 'no result from grandchild'})) + '\n')
        sys.stdout.flush()


def main():
    if sys.argv[1] == '--zygote':
        zygote()
        return
    job_path = sys.argv[1]
    with open(job_path, encoding='utf-8') as f:
        job = json.load(f)
    out = run_job(job)
    sys.stdout.write('SIMPROC ' + json.dumps(out) + '\n')
    sys.stdout.flush()


if __name__ == '__main__':
    main()
