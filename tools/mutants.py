"""Seeded breakages used by tools/sens.py (each compiles and is meant to pass the 189 tests)."""
MUTANTS = [
    # ---- C18 ------------------------------------------------------------------------
    ('c18-prefix-confusion', 'C18', 'stone/backend.py',
     """    relative_path = os.path.relpath(full_path, root_path)
    if (relative_path == os.pardir or
            relative_path.startswith(os.pardir + os.sep) or
            os.path.isabs(relative_path)):""",
     """    relative_path = os.path.relpath(full_path, root_path)
    if not full_path.startswith(root_path):"""),
    ('c18-validate-after-makedirs', 'C18', 'stone/backend.py',
     """        full_path = os.path.join(self.target_folder_path, relative_path)
        self._validate_output_path(full_path)
        if self._record_output_path(full_path):
            self.clear_output_buffer()
            yield
            self.clear_output_buffer()
            return

        directory = os.path.dirname(full_path)
        if not os.path.exists(directory):
            self.logger.info('Creating %s', directory)
            os.makedirs(directory)
""",
     """        full_path = os.path.join(self.target_folder_path, relative_path)
        if self.output_manifest is not None:
            self._validate_output_path(full_path)
        if self._record_output_path(full_path):
            self.clear_output_buffer()
            yield
            self.clear_output_buffer()
            return

        directory = os.path.dirname(full_path)
        if not os.path.exists(directory):
            self.logger.info('Creating %s', directory)
            os.makedirs(directory)
        self._validate_output_path(full_path)
"""),
    ('c18-copy-no-validate', 'C18', 'stone/backend.py',
     """        self._validate_output_path(output_path)
        if self._record_output_path(output_path):
            return output_path""",
     """        if self._record_output_path(output_path):
            return output_path"""),
    ('c18-copy-validate-dst-not-effective', 'C18', 'stone/backend.py',
     """        output_path = os.path.join(dst, os.path.basename(src)) if os.path.isdir(dst) else dst
        self._validate_output_path(output_path)""",
     """        output_path = os.path.join(dst, os.path.basename(src)) if os.path.isdir(dst) else dst
        self._validate_output_path(os.path.dirname(output_path) or output_path)"""),
    ('c18-raw-no-close-brace-escape', 'C18', 'stone/backend.py',
     """self._append_output(s.replace('{', '{{').replace('}', '}}'))""",
     """self._append_output(s.replace('{', '{{').replace('}', '}}') if '{' in s else s)"""),
    ('c18-manifest-falls-through', 'C18', 'stone/backend.py',
     """        if self._record_output_path(full_path):
            self.clear_output_buffer()
            yield
            self.clear_output_buffer()
            return

        directory""",
     """        if self._record_output_path(full_path) and not relative_path.endswith('.py'):
            self.clear_output_buffer()
            yield
            self.clear_output_buffer()
            return

        directory"""),
    ('c18-swift-records-and-writes', 'C18', 'stone/backends/swift.py',
     """        if self._record_output_path(full_path):
            return
        with open""",
     """        if self._record_output_path(full_path) and '/' not in file_name:
            return
        with open"""),
    ('c18-indent-not-restored', 'C18', 'stone/backend.py',
     """        self.cur_indent += dent
        yield
        self.cur_indent -= dent""",
     """        self.cur_indent += dent
        yield
        self.cur_indent -= dent if dent != 7 else 4"""),
    ('c18-no-clear-on-enter', 'C18', 'stone/backend.py',
     """        self.logger.info('Generating %s', full_path)
        self.clear_output_buffer()
        yield""",
     """        self.logger.info('Generating %s', full_path)
        yield"""),
    ('c18-wrap-loses-prefix-when-indented', 'C18', 'stone/backend.py',
     """                                    subsequent_indent=prefix + subsequent_prefix,""",
     """                                    subsequent_indent=(prefix if len(indent) < 8 else indent) + subsequent_prefix,"""),
    ('c18-swift-validate-after-write', 'C18', 'stone/backends/swift.py',
     """        self._validate_output_path(full_path)
        if self._record_output_path(full_path):
            return
        with open(full_path, "w", encoding='utf-8') as fh:
            fh.write(output)""",
     """        if self._record_output_path(full_path):
            return
        with open(full_path, "w", encoding='utf-8') as fh:
            fh.write(output)
        self._validate_output_path(full_path)"""),
    ('c18-placeholders-not-cleared', 'C18', 'stone/backend.py',
     """        self.output = []
        self.positional_placeholders = []
        self.named_placeholders = {}

    def indent_step""",
     """        self.output = []
        self.named_placeholders = {}
        if not self.positional_placeholders or len(self.positional_placeholders) > 1:
            self.positional_placeholders = []

    def indent_step"""),
    ('c18-copy-manifest-records-dst', 'C18', 'stone/backend.py',
     """        if self._record_output_path(output_path):
            return output_path""",
     """        if self._record_output_path(dst):
            return output_path"""),
    ('c18-expected-manifest-subset-ok', 'C18', 'stone/cli.py',
     """    if actual == expected:
        return
""",
     """    if set(actual) <= set(expected):
        return
"""),
    ('c18-objc-manifest-skips-resources', 'C18', 'stone/backends/obj_c_types.py',
     """        self.copy_to_path(
            os.path.join(rsrc_folder, 'DBSerializableProtocol.h'),
            rsrc_output_folder)""",
     """        if self.output_manifest is None:
            self.copy_to_path(
                os.path.join(rsrc_folder, 'DBSerializableProtocol.h'),
                rsrc_output_folder)"""),
    # ---- C12 ------------------------------------------------------------------------
    ('c12-set-repr', 'C12', 'stone/backends/python_types.py',
     """            self.emit('{}._permissioned_tagmaps = {{{}}}'.format(
                class_name, ', '.join(repr(caller) for caller in sorted(all_omitted_callers))))""",
     """            self.emit('{}._permissioned_tagmaps = {}'.format(class_name, all_omitted_callers))"""),
    ('c12-addr-order', 'C12', 'stone/backends/python_types.py',
     """        remaining_annotations = sorted(
            (annotation for _, annotation in all_annotations.difference(indirect_annotations)),
            key=lambda annotation: (annotation.namespace.name, annotation.name))""",
     """        remaining_annotations = [annotation for _, annotation in
                                 all_annotations.difference(indirect_annotations)]"""),
    ('c12-struct-callers-unsorted', 'C12', 'stone/backends/python_types.py',
     """        for omitted_caller in sorted(child_omitted_callers | parent_omitted_callers, key=str):""",
     """        for omitted_caller in (child_omitted_callers | parent_omitted_callers):"""),
    ('c12-stubs-no-clear', 'C12', 'stone/backends/python_type_stubs.py',
     """        self.import_tracker.clear()
""", ""),
    ('c12-embed-target-path', 'C12', 'stone/backends/python_client.py',
     """            self.emit_raw(base)""",
     """            self.emit_raw(base)
            self.emit('# generated into {}'.format(self.target_folder_path))"""),
    ('c12-objc-sticky-class-dict', 'C12', 'stone/backends/obj_c_types.py',
     """                self.obj_name_to_namespace[data_type.name] = fmt_class_prefix(
                    data_type)""",
     """                self.obj_name_to_namespace.setdefault(data_type.name, fmt_class_prefix(
                    data_type))"""),
]
