"""Canonical dump of the attributes of stone.ir.Api that docs/backend_ref.rst documents."""
import json

from . import use_repo

use_repo()
from stone.ir import (  # noqa: E402
    is_alias, is_list_type, is_map_type, is_nullable_type, is_struct_type, is_union_type,
    is_user_defined_type, is_void_type, is_tag_ref, is_primitive_type,
)


def tsig(dt):
    if dt is None:
        return None
    if is_alias(dt):
        return 'alias:%s.%s' % (dt.namespace.name, dt.name)
    if is_nullable_type(dt):
        return {'nullable': tsig(dt.data_type)}
    if is_list_type(dt):
        return {'list': tsig(dt.data_type), 'min': dt.min_items, 'max': dt.max_items}
    if is_map_type(dt):
        return {'map': [tsig(dt.key_data_type), tsig(dt.value_data_type)]}
    if is_user_defined_type(dt):
        return '%s:%s.%s' % ('struct' if is_struct_type(dt) else 'union', dt.namespace.name, dt.name)
    if is_void_type(dt):
        return 'Void'
    d = {'prim': dt.name}
    for k in ('min_value', 'max_value', 'min_length', 'max_length', 'pattern', 'format'):
        if hasattr(dt, k):
            v = getattr(dt, k)
            d[k] = repr(v) if isinstance(v, float) else v
    return d


def val(v):
    if is_tag_ref(v):
        return {'tagref': '%s.%s' % (v.union_data_type.name, v.tag_name)}
    if isinstance(v, float):
        return repr(v)
    if isinstance(v, (list, tuple)):
        return [val(x) for x in v]
    if isinstance(v, dict):
        return {str(k): val(x) for k, x in v.items()}
    if v is None or isinstance(v, (str, int, bool)):
        return v
    return repr(v)


def ann(a):
    if a is None:
        return None
    d = {'name': a.name, 'ns': a.namespace.name, 'class': type(a).__name__}
    for k in ('omitted_caller', 'regex'):
        if hasattr(a, k):
            d[k] = getattr(a, k)
    if hasattr(a, 'annotation_type') and a.annotation_type is not None:
        d['type'] = '%s.%s' % (a.annotation_type.namespace.name, a.annotation_type.name)
        d['args'] = val(list(a.args))
        d['kwargs'] = val(dict(a.kwargs))
    return d


def field_sig(f, struct):
    d = {'name': f.name, 'type': tsig(f.data_type), 'doc': f.doc,
         'omitted_caller': getattr(f, 'omitted_caller', None), 'redactor': ann(getattr(f, 'redactor', None)),
         'deprecated': getattr(f, 'deprecated', None), 'preview': getattr(f, 'preview', None),
         'custom': [ann(a) for a in getattr(f, 'custom_annotations', [])]}
    if struct:
        d['has_default'] = f.has_default
        if f.has_default:
            d['default'] = val(f.default)
    else:
        d['catch_all'] = getattr(f, 'catch_all', None)
    return d


def examples_sig(dt):
    try:
        ex = dt.get_examples()
    except Exception as e:   # noqa
        return 'ERR:%s' % type(e).__name__
    out = []
    for label, e in ex.items():
        out.append([label, e.text, json.loads(json.dumps(e.value, default=repr))])
    return out


def dt_sig(dt):
    d = {'name': dt.name, 'ns': dt.namespace.name, 'doc': dt.doc,
         'parent': tsig(dt.parent_type) if dt.parent_type else None}
    if is_struct_type(dt):
        d['kind'] = 'struct'
        d['fields'] = [field_sig(f, True) for f in dt.fields]
        d['all_fields'] = [f.name for f in dt.all_fields]
        d['required'] = [f.name for f in dt.all_required_fields]
        d['optional'] = [f.name for f in dt.all_optional_fields]
        if dt.has_enumerated_subtypes():
            d['subtypes'] = [[f.name, tsig(f.data_type)] for f in dt.get_enumerated_subtypes()]
            d['catch_all'] = dt.is_catch_all()
            d['all_subtypes'] = [[list(tags), tsig(st)] for tags, st in dt.get_all_subtypes_with_tags()]
        d['in_tree'] = dt.is_member_of_enumerated_subtypes_tree()
    else:
        d['kind'] = 'union'
        d['closed'] = dt.closed
        d['fields'] = [field_sig(f, False) for f in dt.fields]
        d['all_fields'] = [f.name for f in dt.all_fields]
        d['catch_all_field'] = dt.catch_all_field.name if dt.catch_all_field else None
    d['examples'] = examples_sig(dt)
    if hasattr(dt, 'get_all_omitted_callers'):
        d['omitted_callers'] = sorted(str(x) for x in dt.get_all_omitted_callers())
    rca = getattr(dt, 'recursive_custom_annotations', None)
    if rca is not None:
        d['recursive_custom_annotations'] = sorted(
            '%s.%s' % (a.namespace.name, a.name) for _, a in rca)
    return d


def route_sig(r):
    dep = None
    if r.deprecated is not None:
        dep = True if r.deprecated.by is None else '%s:%s' % (r.deprecated.by.name, r.deprecated.by.version)
    return {'name': r.name, 'version': r.version, 'deprecated': dep, 'doc': r.doc,
            'arg': tsig(r.arg_data_type), 'result': tsig(r.result_data_type),
            'error': tsig(r.error_data_type),
            'attrs': {k: val(v) for k, v in r.attrs.items()}}


def ns_sig(ns):
    return {
        'name': ns.name, 'doc': ns.doc,
        'imports': [n.name for n in ns.get_imported_namespaces()],
        'imports_full': [n.name for n in ns.get_imported_namespaces(
            consider_annotations=True, consider_annotation_types=True)],
        'imports_dt': [n.name for n in ns.get_imported_namespaces(must_have_imported_data_type=True)],
        'imported_by_route_io': [n.name for n in ns.get_namespaces_imported_by_route_io()],
        'routes': [route_sig(r) for r in ns.routes],
        'routes_by_name': {k: sorted(v.at_version) for k, v in ns.routes_by_name.items()},
        'route_by_name': sorted(ns.route_by_name),
        'data_types': [dt_sig(dt) for dt in ns.data_types],
        'data_type_by_name': sorted(ns.data_type_by_name),
        'linearized': [dt.name for dt in ns.linearize_data_types()],
        'aliases': [{'name': a.name, 'type': tsig(a.data_type), 'doc': a.doc,
                     'redactor': ann(a.redactor), 'custom': [ann(x) for x in a.custom_annotations]}
                    for a in ns.aliases],
        'linearized_aliases': [a.name for a in ns.linearize_aliases()],
        'annotations': [ann(a) for a in ns.annotations],
        'annotation_types': [{'name': t.name, 'doc': t.doc,
                              'params': [{'name': p.name, 'type': tsig(p.data_type), 'doc': p.doc,
                                          'has_default': p.has_default,
                                          'default': val(p.default) if p.has_default else None}
                                         for p in t.params]} for t in ns.annotation_types],
        # sorted by bare name only in stone: ties between namespaces are address-ordered (not layout)
        'route_io': sorted(json.dumps(tsig(dt)) for dt in ns.get_route_io_data_types()),
    }


def api_sig(api):
    d = {'namespaces': [ns_sig(ns) for ns in api.namespaces.values()],
         'route_schema': None}
    if api.route_schema is not None:
        d['route_schema'] = [field_sig(f, True) for f in api.route_schema.fields]
    return d


def first_difference(a, b, path=''):
    """Path of the first difference between two signature trees, or None."""
    if type(a) != type(b):
        return '%s: %r != %r' % (path, a, b)
    if isinstance(a, dict):
        for k in sorted(set(a) | set(b)):
            if k not in a or k not in b:
                return '%s.%s: only on one side (%r / %r)' % (path, k, a.get(k), b.get(k))
            d = first_difference(a[k], b[k], '%s.%s' % (path, k))
            if d:
                return d
        return None
    if isinstance(a, list):
        if len(a) != len(b):
            names = lambda x: [i.get('name') if isinstance(i, dict) else i for i in x]  # noqa
            return '%s: length %d != %d (%r / %r)' % (path, len(a), len(b), names(a)[:8], names(b)[:8])
        for i, (x, y) in enumerate(zip(a, b)):
            label = x.get('name', i) if isinstance(x, dict) else i
            d = first_difference(x, y, '%s[%s]' % (path, label))
            if d:
                return d
        return None
    if a != b:
        return '%s: %r != %r' % (path, a, b)
    return None
