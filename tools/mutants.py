"""Seeded breakages used by tools/sens.py (each compiles and is meant to pass the 189 tests)."""
MUTANTS = [
    # ---- C18 ------------------------------------------------------------------------
    ('c18-prefix-confusion', 'C18', 'stone/backend.py',
     """    relative_path = os.path.relpath(full_path, root_path)
    if (relative_path == os.pardir or
            relative_path.startswith(os.pardir + os.sep) or
            os.path.isabs(relative_path)):""",
     """    relative_path = os.path.relpath(full_path, root_path)
    if not full_path.startswith(root_path):"""),
    ('c18-validate-after-makedirs', 'C18', 'stone/backend.py',
     """        self._validate_output_path(full_path)
        if self._record_output_path(full_path):
            self.clear_output_buffer()
            yield
            self.clear_output_buffer()
            return

        directory = os.path.dirname(full_path)
        if not os.path.exists(directory):
            self.logger.info('Creating %s', directory)
            os.makedirs(directory)
""",
     """        if self.output_manifest is not None:
            self._validate_output_path(full_path)
        if self._record_output_path(full_path):
            self.clear_output_buffer()
            yield
            self.clear_output_buffer()
            return

        directory = os.path.dirname(full_path)
        if not os.path.exists(directory):
            self.logger.info('Creating %s', directory)
            os.makedirs(directory)
        self._validate_output_path(full_path)
"""),
    ('c18-unnormalized-path', 'C18', 'stone/backend.py',
     """        full_path = os.path.normpath(os.path.join(self.target_folder_path, relative_path))""",
     """        full_path = os.path.join(self.target_folder_path, relative_path)"""),
    ('c18-copy-no-validate', 'C18', 'stone/backend.py',
     """        self._validate_output_path(output_path)
        if self._record_output_path(output_path):
            return output_path""",
     """        if self._record_output_path(output_path):
            return output_path"""),
    ('c18-copy-validate-dst-not-effective', 'C18', 'stone/backend.py',
     """        output_path = os.path.join(dst, os.path.basename(src)) if os.path.isdir(dst) else dst
        self._validate_output_path(output_path)""",
     """        output_path = os.path.join(dst, os.path.basename(src)) if os.path.isdir(dst) else dst
        self._validate_output_path(os.path.dirname(output_path) or output_path)"""),
    ('c18-raw-no-close-brace-escape', 'C18', 'stone/backend.py',
     """self._append_output(s.replace('{', '{{').replace('}', '}}'))""",
     """self._append_output(s.replace('{', '{{').replace('}', '}}') if '{' in s else s)"""),
    ('c18-manifest-falls-through', 'C18', 'stone/backend.py',
     """        if self._record_output_path(full_path):
            self.clear_output_buffer()
            yield
            self.clear_output_buffer()
            return

        directory""",
     """        if self._record_output_path(full_path) and not relative_path.endswith('.py'):
            self.clear_output_buffer()
            yield
            self.clear_output_buffer()
            return

        directory"""),
    ('c18-swift-records-and-writes', 'C18', 'stone/backends/swift.py',
     """        if self._record_output_path(full_path):
            return
        with open""",
     """        if self._record_output_path(full_path) and '/' not in file_name:
            return
        with open"""),
    ('c18-indent-not-restored', 'C18', 'stone/backend.py',
     """        self.cur_indent += dent
        yield
        self.cur_indent -= dent""",
     """        self.cur_indent += dent
        yield
        self.cur_indent -= dent if dent != 7 else 4"""),
    ('c18-no-clear-on-enter', 'C18', 'stone/backend.py',
     """        self.logger.info('Generating %s', full_path)
        self.clear_output_buffer()
        yield""",
     """        self.logger.info('Generating %s', full_path)
        yield"""),
    ('c18-wrap-loses-prefix-when-indented', 'C18', 'stone/backend.py',
     """                                    subsequent_indent=prefix + subsequent_prefix,""",
     """                                    subsequent_indent=(prefix if len(indent) < 8 else indent) + subsequent_prefix,"""),
    ('c18-swift-validate-after-write', 'C18', 'stone/backends/swift.py',
     """        self._validate_output_path(full_path)
        if self._record_output_path(full_path):
            return
        with open(full_path, "w", encoding='utf-8') as fh:
            fh.write(output)""",
     """        if self._record_output_path(full_path):
            return
        with open(full_path, "w", encoding='utf-8') as fh:
            fh.write(output)
        self._validate_output_path(full_path)"""),
    ('c18-placeholders-not-cleared', 'C18', 'stone/backend.py',
     """        self.output = []
        self.positional_placeholders = []
        self.named_placeholders = {}

    def indent_step""",
     """        self.output = []
        self.named_placeholders = {}
        if not self.positional_placeholders or len(self.positional_placeholders) > 1:
            self.positional_placeholders = []

    def indent_step"""),
    ('c18-copy-manifest-records-dst', 'C18', 'stone/backend.py',
     """        if self._record_output_path(output_path):
            return output_path""",
     """        if self._record_output_path(dst):
            return output_path"""),
    ('c18-expected-manifest-subset-ok', 'C18', 'stone/cli.py',
     """    if actual == expected:
        return
""",
     """    if set(actual) <= set(expected):
        return
"""),
    ('c18-objc-manifest-skips-resources', 'C18', 'stone/backends/obj_c_types.py',
     """        self.copy_to_path(
            os.path.join(rsrc_folder, 'DBSerializableProtocol.h'),
            rsrc_output_folder)""",
     """        if self.output_manifest is None:
            self.copy_to_path(
                os.path.join(rsrc_folder, 'DBSerializableProtocol.h'),
                rsrc_output_folder)"""),
    # ---- C12 ------------------------------------------------------------------------
    ('c12-set-repr', 'C12', 'stone/backends/python_types.py',
     """            self.emit('{}._permissioned_tagmaps = {{{}}}'.format(
                class_name, ', '.join(repr(caller) for caller in sorted(all_omitted_callers))))""",
     """            self.emit('{}._permissioned_tagmaps = {}'.format(class_name, all_omitted_callers))"""),
    ('c12-addr-order', 'C12', 'stone/backends/python_types.py',
     """        remaining_annotations = sorted(
            (annotation for _, annotation in all_annotations.difference(indirect_annotations)),
            key=lambda annotation: (annotation.namespace.name, annotation.name))""",
     """        remaining_annotations = [annotation for _, annotation in
                                 all_annotations.difference(indirect_annotations)]"""),
    ('c12-struct-callers-unsorted', 'C12', 'stone/backends/python_types.py',
     """        for omitted_caller in sorted(child_omitted_callers | parent_omitted_callers, key=str):""",
     """        for omitted_caller in (child_omitted_callers | parent_omitted_callers):"""),
    ('c12-stubs-no-clear', 'C12', 'stone/backends/python_type_stubs.py',
     """        self.import_tracker.clear()
""", ""),
    ('c12-embed-target-path', 'C12', 'stone/backends/python_client.py',
     """            self.emit_raw(base)""",
     """            self.emit_raw(base)
            self.emit('# generated into {}'.format(self.target_folder_path))"""),
    ('c12-objc-sticky-class-dict', 'C12', 'stone/backends/obj_c_types.py',
     """                self.obj_name_to_namespace[data_type.name] = fmt_class_prefix(
                    data_type)""",
     """                self.obj_name_to_namespace.setdefault(data_type.name, fmt_class_prefix(
                    data_type))"""),
    ('c12-whitelist-inherited-field-context', 'C12', 'stone/frontend/ir_generator.py',
     """            for field in data_type.fields:
                self._find_dependencies_recursive(field, seen, output_types, output_routes,
                                                  type_context=data_type)""",
     """            for field in data_type.all_fields:
                self._find_dependencies_recursive(field, seen, output_types, output_routes,
                                                  type_context=data_type)"""),
    ('c12-year-in-header', 'C12', 'stone/backends/python_client.py',
     """            self.emit_raw(base)""",
     """            self.emit_raw(base)
            import datetime
            self.emit('# (c) {} generated by Stone'.format(datetime.date.today().year))"""),
    ('c12-js-header-cwd', 'C12', 'stone/backends/js_client.py',
     """_header = \"\"\"\\
// Auto-generated by Stone, do not modify.
""",
     """import os as _os
_header = \"\"\"\\
// Auto-generated by Stone in %s, do not modify.
\"\"\" % _os.path.basename(_os.getcwd()) + \"\"\"\\
"""),
    ('c12-user-in-module', 'C12', 'stone/backends/python_types.py',
     """        self.emit_raw(validators_import)""",
     """        self.emit_raw(validators_import)
        import os as _os
        self.emit('# user: {}'.format(_os.environ.get('USER', '')))"""),
    # ---- C06 ------------------------------------------------------------------------
    ('c06-struct-no-dict-check', 'C06', 'stone/backends/python_rsrc/stone_serializers.py',
     """        elif not isinstance(obj, dict):
            raise bv.ValidationError('expected object, got %s' %
                                     bv.generic_type_name(obj))
        all_fields = data_type.definition._all_fields_""",
     """        elif not isinstance(obj, (dict, list)):
            raise bv.ValidationError('expected object, got %s' %
                                     bv.generic_type_name(obj))
        all_fields = data_type.definition._all_fields_"""),
    ('c06-list-no-max-items', 'C06', 'stone/backends/python_rsrc/stone_validators.py',
     """        elif self.max_items is not None and len(val) > self.max_items:""",
     """        elif self.max_items is not None and len(val) > self.max_items + 1:"""),
    ('c06-strict-accepts-unknown-fields', 'C06', 'stone/backends/python_rsrc/stone_serializers.py',
     """                if (key not in all_field_names and
                        not key.startswith('.tag')):""",
     """                if (key not in all_field_names and
                        not key.startswith('.tag') and not key.startswith('zz')):"""),
    ('c06-closed-union-unknown-tag', 'C06', 'stone/backends/python_rsrc/stone_serializers.py',
     """            if not self.strict and data_type.definition._catch_all:
                return data_type.definition._catch_all, None
            else:
                raise bv.ValidationError("unknown tag '%s'" % tag)""",
     """            if not self.strict:
                return (data_type.definition._catch_all or sorted(data_type.definition._tagmap)[0]), None
            else:
                raise bv.ValidationError("unknown tag '%s'" % tag)"""),
    ('c06-no-bool-check', 'C06', 'stone/backends/python_rsrc/stone_serializers.py',
     """            if isinstance(data_type, (bv.Integer, bv.Real)) and isinstance(val, bool):""",
     """            if isinstance(data_type, bv.Real) and isinstance(val, bool):"""),
    ('c06-toplevel-unvalidated', 'C06', 'stone/backends/python_rsrc/stone_serializers.py',
     """    elif isinstance(data_type, (bv.List, bv.Map, bv.Nullable)):""",
     """    elif isinstance(data_type, (bv.Map, bv.Nullable)):"""),
    ('c06-tree-non-dict', 'C06', 'stone/backends/python_rsrc/stone_serializers.py',
     """        if not isinstance(obj, dict):
            raise bv.ValidationError('expected object, got %s' %
                                     bv.generic_type_name(obj))
        if '.tag' not in obj:
            raise bv.ValidationError("missing '.tag' key")
        if not isinstance(obj['.tag'], str):""",
     """        if '.tag' not in obj:
            raise bv.ValidationError("missing '.tag' key")
        if not isinstance(obj['.tag'], str):"""),
    ('c06-explicit-null-refused', 'C06', 'stone/backends/python_rsrc/stone_serializers.py',
     """        if obj is not None:
            return self.json_compat_obj_decode_helper(data_type.validator, obj)
        else:
            return None""",
     """        if obj is not None or isinstance(data_type.validator, bv.Timestamp):
            return self.json_compat_obj_decode_helper(data_type.validator, obj)
        else:
            return None"""),
    ('c06-recursion-escapes', 'C06', 'stone/backends/python_rsrc/stone_serializers.py',
     """    except RecursionError:
        # The decoder recurses once per level of nesting.
        raise bv.ValidationError('input is nested too deeply')
""",
     """    except RecursionError:
        raise
"""),
    ('c03-example-alias-nullable-required', 'C03', 'stone/ir/data_types.py',
     """            elif field.has_default or unwrap(field.data_type)[1]:""",
     """            elif field.has_default or isinstance(field.data_type, Nullable):"""),
    # ---- C07 ------------------------------------------------------------------------
    ('c07-lenient-rejects-unknown-fields', 'C07', 'stone/backends/python_rsrc/stone_serializers.py',
     """        if self.strict:
            all_field_names = data_type.definition._all_field_names_""",
     """        if self.strict or len(obj) > 6:
            all_field_names = data_type.definition._all_field_names_"""),
    ('c07-unknown-tag-no-catch-all-in-list', 'C07', 'stone/backends/python_rsrc/stone_serializers.py',
     """        if not data_type.definition._is_tag_present(tag, self.caller_permissions):
            if not self.strict and data_type.definition._catch_all:
                return data_type.definition._catch_all, None""",
     """        if not data_type.definition._is_tag_present(tag, self.caller_permissions):
            if not self.strict and data_type.definition._catch_all and len(obj) < 3:
                return data_type.definition._catch_all, None"""),
    ('c07-tree-no-fallback', 'C07', 'stone/backends/python_rsrc/stone_serializers.py',
     """                if data_type.definition._is_catch_all_:
                    return data_type""",
     """                if data_type.definition._is_catch_all_ and len(obj) < 4:
                    return data_type"""),
    ('c07-lenient-void-rejects-payload', 'C07', 'stone/backends/python_rsrc/stone_serializers.py',
     """        if isinstance(val_data_type, bv.Void):
            if self.strict:""",
     """        if isinstance(val_data_type, bv.Void):
            if self.strict or isinstance(obj.get(tag), dict):"""),
    ('c07-strict-accepts-unknown-subtype-fields', 'C07', 'stone/backends/python_rsrc/stone_serializers.py',
     """            for key in obj:
                if (key not in all_field_names and
                        not key.startswith('.tag')):
                    raise bv.ValidationError("unknown field '%s'" % key)""",
     """            for key in obj:
                if (key not in all_field_names and
                        not key.startswith('.tag') and '.tag' not in obj):
                    raise bv.ValidationError("unknown field '%s'" % key)"""),
    ('c07-default-lost-for-union-fields', 'C07', 'stone/backends/python_rsrc/stone_base.py',
     """        if self.default is not NO_DEFAULT:
            return self.default""",
     """        if self.default is not NO_DEFAULT and not self.user_defined:
            return self.default"""),
    ('c06-string-tag-no-catch-all', 'C06', 'stone/backends/python_rsrc/stone_serializers.py',
     """            elif not self.strict and data_type.definition._catch_all:
                tag = data_type.definition._catch_all
            else:
                raise bv.ValidationError("unknown tag '%s'" % tag)
        elif isinstance(obj, dict):
            tag, val = self.decode_union_dict(data_type, obj)""",
     """            else:
                raise bv.ValidationError("unknown tag '%s'" % tag)
        elif isinstance(obj, dict):
            tag, val = self.decode_union_dict(data_type, obj)"""),
    # ---- C11 ------------------------------------------------------------------------
    ('c11-stdin-substring-split', 'C11', 'stone/cli.py',
     """            parts = re.split(r'(?m)^(?=namespace\\b)', stdin_text)""",
     """            parts = re.split(r'(?=namespace\\b)', stdin_text)"""),
    ('c11-no-datatype-sort', 'C11', 'stone/ir/api.py',
     """        self.data_types.sort(key=lambda data_type: data_type.name)""",
     """        pass"""),
    ('c11-annotations-interleaved', 'C11', 'stone/frontend/ir_generator.py',
     """        # annotations of every namespace are complete before any alias or data type
        # uses them: a spec may apply an annotation of a namespace defined in a later spec
        for namespace in self.api.namespaces.values():
            env = self._get_or_create_env(namespace.name)

""", ""),
    ('c11-nullable-alias-order', 'C11', 'stone/frontend/ir_generator.py',
     """                if cur_data_type.data_type is None:
                    self._populate_alias_attributes(
                        self._get_or_create_env(cur_data_type.namespace.name), cur_data_type)
""", """                if cur_data_type.data_type is None:
                    break
"""),
    ('c11-comment-line-dents', 'C11', 'stone/frontend/lexer.py',
     """        if lstripped_line[0] == '#':
            # If it's a comment line, ignore indentation.
            return None
""", """        if lstripped_line[0] == '#' and len(line) - lstripped_line_length < 12:
            # If it's a comment line, ignore indentation.
            return None
"""),
    ('c11-doc-prepend', 'C11', 'stone/ir/api.py',
     """            self.doc += normalized_docstring""",
     """            self.doc = normalized_docstring + self.doc"""),
    # ---- C03 ------------------------------------------------------------------------
    ('c03-eof-assert', 'C03', 'stone/frontend/parser.py',
     """        if token is None:
            # The text ended in the middle of a definition.
            self.errors.append(
                ('Unexpected end of file.', self.lexer.lex.lineno, self.path))
            return
""", """        assert token is not None, "Unknown error, please report this."
"""),
    ('c03-param-error-unconverted', 'C03', 'stone/frontend/ir_generator.py',
     """        except ParameterError as e:
            # Each data type validates its own attributes, and will raise a
            # ParameterError if the type or value is bad.
            raise InvalidSpec('Bad argument to %s type: %s' %
                (quote(data_type_class.__name__), e.args[0]),
                *loc)""",
     """        except ParameterError as e:
            # Each data type validates its own attributes, and will raise a
            # ParameterError if the type or value is bad.
            if 'pattern' in str(e.args[0]):
                raise
            raise InvalidSpec('Bad argument to %s type: %s' %
                (quote(data_type_class.__name__), e.args[0]),
                *loc)"""),
    ('c03-got-errors-ignored', 'C03', 'stone/frontend/frontend.py',
     """        if parser.got_errors_parsing():""",
     """        if parser.got_errors_parsing() and len(parser.get_errors()) < 3:"""),
    ('c03-indent-error-raises', 'C03', 'stone/frontend/lexer.py',
     """            self.errors.append(
                ('Indent is not divisible by 4.', newline_token.lexer.lineno))
            return None""",
     """            if indent > 20:
                raise ValueError('Indent is not divisible by 4.')
            self.errors.append(
                ('Indent is not divisible by 4.', newline_token.lexer.lineno))
            return None"""),
    ('c03-two-arg-route', 'C03', 'stone/frontend/ir_generator.py',
     """        if route._ast_node.error_type_ref is None:
            # The error type may be left out of a route's signature.
            error_dt = Void()
        else:
            error_dt = self._resolve_type(env, route._ast_node.error_type_ref)""",
     """        error_dt = self._resolve_type(env, route._ast_node.error_type_ref)"""),
    ('c03-invalidspec-foreign-path', 'C03', 'stone/frontend/frontend.py',
     """            msg, lineno, path = parser.get_errors()[0]
            raise InvalidSpec(msg, lineno, path)""",
     """            msg, lineno, path = parser.get_errors()[0]
            raise InvalidSpec(msg, lineno, path if lineno != 3 else '<spec>')"""),
]
