"""Batch driver shared by all engines: plan -> units -> fork pool -> aggregate ->
determinism self-test -> triage (known findings / minimise / replay) -> evidence.

Exit codes: 0 property held on everything explored; 1 violation (with a
`VIOLATION property=<id> replay=<path>` line); 2 harness error.
"""
import fnmatch
import hashlib
import json
import os
import subprocess
import sys
import time

from . import VERIF, REPO
from .pool import run_units, run_one
from .tape import Tape, shrink, shrink_tree, tape_size

PY = sys.executable


def new_result():
    return {
        'violations': [],     # [{'class','key','detail'}]
        'faults': {},         # kind -> times fired
        'probes': {},         # name -> count
        'states': [],         # abstract-state strings (distinct measure)
        'steps': 0,           # logical time
        'events': [],         # event log lines (strings); digest is computed from it
        'sample': None,
        'rejected': False,    # generator rejection (never a violation)
        'trace': [],          # human-readable ops for the replay file
        'artefacts': {},
        'known_masked': [],   # known-finding keys attributed by masking
    }


def bump(d, k, n=1):
    d[k] = d.get(k, 0) + n


def digest_of(events):
    h = hashlib.sha256()
    for e in events:
        h.update(e.encode('utf-8', 'surrogatepass') if isinstance(e, str) else e)
        h.update(b'\n')
    return h.hexdigest()


class Engine:
    property_id = 'C00'
    name = 'engine'
    level = 'exploration'
    rule = ''
    real_components = []
    stub_components = []
    assumptions = []
    unit_cap = 120
    technique = 'deterministic simulation with fault injection'

    def prepare(self):
        """Import everything heavy in the parent so forked children share it."""

    def plan(self, tier):
        """-> [(kind, n_runs, unit_size)]"""
        raise NotImplementedError

    def run(self, tape, kind):
        raise NotImplementedError


# ----------------------------------------------------------------------------
# known findings

def load_known():
    p = os.path.join(VERIF, 'known_findings.json')
    if not os.path.exists(p):
        return []
    with open(p, encoding='utf-8') as f:
        return json.load(f)


def match_known(known, prop, vclass, key):
    for k in known:
        if k.get('status') != 'open' or k['property'] != prop:
            continue
        if k['class'] == vclass and fnmatch.fnmatchcase(key, k['key']):
            return k
    return None


# ----------------------------------------------------------------------------

class Batch:
    def __init__(self, engine, seed, tier):
        self.engine = engine
        self.seed = seed
        self.tier = tier

    def tape_seed(self, kind, idx):
        return '%d:%s:%s:%d' % (self.seed, self.engine.name, kind, idx)

    def exec_run(self, kind, idx, replay=None):
        tape = Tape(seed=self.tape_seed(kind, idx), replay=replay)
        res = self.engine.run(tape, kind)
        res['id'] = (kind, idx)
        res['digest'] = digest_of(res.pop('events'))
        res['tape'] = tape.dump() if tape.children else list(tape.values)
        return res

    def exec_unit(self, unit):
        kind, ids = unit
        out = []
        for i in ids:
            r = self.exec_run(kind, i)
            if not r['violations']:
                r['trace'] = []
                r['artefacts'] = {}
                r['tape'] = None
            out.append(r)
        return out


def _slim(res):
    return {k: res[k] for k in ('id', 'digest', 'steps', 'rejected')}


def run_check(engine, tier='quick', seed=0, workers=None, digest_only=None, scale=None):
    t0 = time.time()
    engine.prepare()
    batch = Batch(engine, seed, tier)

    if digest_only is not None:
        # used by the determinism self-test: print digests of the given runs
        out = {}
        for kind, idx in digest_only:
            st, payload = run_one(lambda u: batch.exec_unit(u), (kind, [idx]), cap=engine.unit_cap)
            out['%s:%d' % (kind, idx)] = payload[0]['digest'] if st == 'ok' else 'ERR:' + st
        print('DIGESTS ' + json.dumps(out, sort_keys=True))
        return 0

    plan = engine.plan(tier)
    if scale:
        plan = [(k, max(1, int(n * scale)), u) for k, n, u in plan]
    units = []
    for kind, n, usize in plan:
        for s in range(0, n, usize):
            units.append((kind, list(range(s, min(n, s + usize)))))

    agg = {'evaluations': 0, 'faults': {}, 'probes': {}, 'states': set(), 'steps': 0,
           'rejected': 0, 'samples': {}, 'by_kind': {}, 'known_masked': {}}
    digests = {}
    viol = {}          # (class,key) -> first result
    viol_count = {}
    harness_errors = []

    def absorb(results):
        for r in results:
            agg['evaluations'] += 1
            kind = r['id'][0]
            bump(agg['by_kind'], kind)
            if r['rejected']:
                agg['rejected'] += 1
            for k, v in r['faults'].items():
                bump(agg['faults'], k, v)
            for k, v in r['probes'].items():
                bump(agg['probes'], k, v)
            agg['states'].update(r['states'])
            agg['steps'] += r['steps']
            for k in r.get('known_masked', []):
                bump(agg['known_masked'], k)
            digests[r['id']] = r['digest']
            if r['sample'] is not None and len(agg['samples'].setdefault(kind, [])) < 2:
                agg['samples'][kind].append(r['sample'])
            for v in r['violations']:
                key = (v['class'], v['key'])
                bump(viol_count, key)
                cur = viol.get(key)
                if cur is None or r['id'] < cur[0]['id']:
                    viol[key] = (r, v)

    for unit, status, payload in run_units(batch.exec_unit, units, workers=workers,
                                           cap=engine.unit_cap):
        if status == 'ok':
            absorb(payload)
        else:
            harness_errors.append('unit %s %s..%s: %s: %s' % (
                unit[0], unit[1][0], unit[1][-1], status, str(payload)[-2000:]))

    # -- determinism self-test -------------------------------------------------
    det = {'checked': 0, 'mismatches': []}
    sample_ids = []
    for kind, n, usize in plan:
        sample_ids += [(kind, i) for i in range(min(n, engine.det_sample if hasattr(engine, 'det_sample') else 6))]
    if sample_ids and not harness_errors:
        # (a) again, in other forked workers, one run per unit, reversed order
        re_units = [(k, [i]) for k, i in reversed(sample_ids)]
        for unit, status, payload in run_units(batch.exec_unit, re_units, workers=workers,
                                               cap=engine.unit_cap):
            if status != 'ok':
                harness_errors.append('determinism rerun %r: %s %s' % (unit, status, str(payload)[-500:]))
                continue
            r = payload[0]
            det['checked'] += 1
            if digests.get(r['id']) != r['digest']:
                det['mismatches'].append(('refork', r['id']))
        # (b) fresh interpreter, other hash seed for the harness
        env = dict(os.environ)
        env['PYTHONHASHSEED'] = '4242'
        env['SIMSTONE_REEXEC'] = '1'
        arg = ','.join('%s:%d' % (k, i) for k, i in sample_ids)
        try:
            p = subprocess.run([PY, '-m', 'simstone.check', engine.property_id, '--seed', str(seed),
                                '--digest-only', arg], cwd=VERIF, env=env, capture_output=True,
                               text=True, timeout=max(300, engine.unit_cap * 3))
            line = [ln for ln in p.stdout.splitlines() if ln.startswith('DIGESTS ')]
            if not line:
                harness_errors.append('determinism fresh interpreter: no digests: %s %s' % (
                    p.stdout[-500:], p.stderr[-1500:]))
            else:
                fresh = json.loads(line[0][8:])
                for k, i in sample_ids:
                    det['checked'] += 1
                    if fresh.get('%s:%d' % (k, i)) != digests.get((k, i)):
                        det['mismatches'].append(('fresh-interpreter', (k, i)))
        except subprocess.TimeoutExpired:
            harness_errors.append('determinism fresh interpreter: timeout')
    if det['mismatches']:
        harness_errors.append('NONDETERMINISM: digests differ for %r' % (det['mismatches'][:5],))

    # -- triage ------------------------------------------------------------------
    known = load_known()
    known_hit = {}
    new_viol = []
    for key in sorted(viol):
        r, v = viol[key]
        k = match_known(known, engine.property_id, v['class'], v['key'])
        if k is not None:
            known_hit.setdefault(k['key'], (k, 0))
            known_hit[k['key']] = (k, known_hit[k['key']][1] + viol_count[key])
        else:
            new_viol.append((r, v))
    for kk, n in sorted(agg['known_masked'].items()):
        k = match_known(known, engine.property_id, 'masked', kk)
        if k is not None:
            known_hit[k['key']] = (k, known_hit.get(k['key'], (k, 0))[1] + n)

    for _, (k, n) in sorted(known_hit.items()):
        print('KNOWN-FINDING: property=%s %s [%s %s; seen %d times in this run]' % (
            engine.property_id, k['what'], k['class'], k['key'], n))
    for k in known:
        # every listed open finding of this property is named on every run, reached or not
        if k.get('status') == 'open' and k['property'] == engine.property_id and k['key'] not in known_hit:
            print('KNOWN-FINDING: property=%s %s [%s %s; not reached in this run]' % (
                engine.property_id, k['what'], k['class'], k['key']))

    exit_code = 0
    reported = []
    replay_dir = os.environ.get('SIMSTONE_REPLAY_DIR') or os.path.join(VERIF, 'replays')
    if os.environ.get('SIMSTONE_NO_EVIDENCE') and not os.environ.get('SIMSTONE_REPLAY_DIR'):
        import tempfile
        replay_dir = tempfile.mkdtemp(prefix='simstone-replays-')
    os.makedirs(replay_dir, exist_ok=True)
    budget_each = 60 if tier == 'quick' else 180
    for n_done, (r, v) in enumerate(new_viol):
        kind, idx = r['id']
        tape_vals = r['tape']

        def still(vals, kind=kind, v=v):
            st, payload = run_one(lambda u: [batch.exec_run(kind, 0, replay=vals)], (kind, [0]),
                                  cap=engine.unit_cap)
            if st != 'ok':
                return False
            return any(x['class'] == v['class'] and x['key'] == v['key']
                       for x in payload[0]['violations'])
        minimised, calls = tape_vals, 0
        if n_done < 6 and not os.environ.get('SIMSTONE_NO_SHRINK'):
            if still(tape_vals):
                if isinstance(tape_vals, dict):
                    minimised, calls = shrink_tree(tape_vals, still, budget=200,
                                                   deadline=time.monotonic() + budget_each)
                else:
                    minimised, calls = shrink(tape_vals, still, budget=150,
                                              deadline=time.monotonic() + budget_each)
            else:
                harness_errors.append('violation %r of run %r did not reproduce from its own tape'
                                      % ((v['class'], v['key']), r['id']))
                continue
        st, payload = run_one(lambda u: [batch.exec_run(kind, 0, replay=minimised)], (kind, [0]),
                              cap=engine.unit_cap)
        final = payload[0] if st == 'ok' else r
        fv = [x for x in final['violations'] if x['class'] == v['class'] and x['key'] == v['key']]
        fv = fv[0] if fv else v
        path = os.path.join(replay_dir, '%s-%d-%s-%d.json' % (engine.property_id, seed, kind, idx))
        with open(path, 'w', encoding='utf-8') as f:
            json.dump({
                'format': 1, 'property': engine.property_id, 'engine': engine.name,
                'kind': kind, 'seed': seed, 'run': idx, 'tier': tier,
                'tape': minimised, 'original_tape_len': tape_size(tape_vals), 'minimised_tape_len': tape_size(minimised),
                'shrink_calls': calls,
                'violation': fv, 'ops': final.get('trace', []),
                'artefacts': final.get('artefacts', {}), 'digest': final.get('digest'),
                'stone_rev': _stone_rev(),
            }, f, indent=1, ensure_ascii=False, default=str)
        # replay in a fresh process must reproduce
        p = subprocess.run([PY, '-m', 'simstone.replay', path], cwd=VERIF, capture_output=True,
                           text=True, timeout=max(300, engine.unit_cap * 3))
        if p.returncode != 1 or 'REPRODUCED' not in p.stdout:
            harness_errors.append('replay of %s did not reproduce (exit %s): %s %s' % (
                path, p.returncode, p.stdout[-500:], p.stderr[-1000:]))
            continue
        print('VIOLATION property=%s replay=%s' % (engine.property_id, path))
        print('  class=%s key=%s seen=%d' % (v['class'], v['key'], viol_count[(v['class'], v['key'])]))
        print('  detail: %s' % (str(fv.get('detail'))[:1500],))
        reported.append({'class': v['class'], 'key': v['key'], 'replay': path})
        exit_code = 1

    for e in harness_errors:
        print('HARNESS-ERROR: %s' % e)
    if harness_errors and exit_code == 0:
        exit_code = 2

    # -- reach probes ---------------------------------------------------------------
    unreached = [p for p in getattr(engine, 'expected_probes', []) if not agg['probes'].get(p)]
    for p in unreached:
        print('UNREACHED %s' % p)

    # -- evidence ----------------------------------------------------------------------
    wall = time.time() - t0
    samples = []
    for kind in sorted(agg['samples']):
        samples += agg['samples'][kind]
    ev = {
        'property_id': engine.property_id,
        'tier': tier if tier in ('quick', 'thorough') else 'quick',
        'seed': seed,
        'level': engine.level,
        'coverage': {
            'evaluations': agg['evaluations'],
            'distinct_nontrivial': len(agg['states']),
            'rule': engine.rule,
            'samples': samples[:8],
            'runs_by_kind': agg['by_kind'],
            'runs_per_hour': int(agg['evaluations'] / wall * 3600) if wall > 0 else 0,
            'seeds': '%d run ids derived from VERIF_SEED=%d (tape seed "<seed>:%s:<kind>:<index>")' % (
                agg['evaluations'], seed, engine.name),
            'sim_steps_total': agg['steps'],
            'sim_time_note': 'stone reads no clock; simulated time is the logical step counter',
            'fault_counts': dict(sorted(agg['faults'].items())),
            'probe_counts': dict(sorted(agg['probes'].items())),
            'unreached_probes': unreached,
            'generator_rejections': agg['rejected'],
            'real_components': engine.real_components,
            'stub_components': engine.stub_components,
            'determinism_selftest': {'digests_compared': det['checked'],
                                     'mismatches': len(det['mismatches'])},
            'harness_errors': len(harness_errors),
            'known_findings_hit': {k: n for k, (_, n) in sorted(known_hit.items())},
            'violations_reported': reported,
            'workers': workers or min(16, os.cpu_count() or 1),
        },
        'assumptions': engine.assumptions,
        'wall_s': round(wall, 2),
        'violations': len(reported),
    }
    if not os.environ.get('SIMSTONE_NO_EVIDENCE'):
        os.makedirs(os.path.join(VERIF, 'evidence'), exist_ok=True)
        with open(os.path.join(VERIF, 'evidence', engine.property_id + '.json'), 'w',
                  encoding='utf-8') as f:
            json.dump(ev, f, indent=1, ensure_ascii=False, default=str)
            f.write('\n')
        if tier != 'smoke':
            # run log (one line per evidence-writing run against /repo; the evidence file only keeps the last)
            with open(os.path.join(VERIF, 'runs.jsonl'), 'a', encoding='utf-8') as f:
                f.write(json.dumps({'property': engine.property_id, 'tier': tier, 'seed': seed,
                                    'evaluations': agg['evaluations'], 'distinct': len(agg['states']),
                                    'faults': sum(agg['faults'].values()), 'violations': len(reported),
                                    'known': len(known_hit), 'harness_errors': ev['coverage'].get('harness_errors'),
                                    'wall_s': ev['wall_s'], 'stone_rev': _stone_rev(), 'repo': REPO,
                                    'verif_rev': _verif_rev(),
                                    'utc': time.strftime('%Y-%m-%dT%H:%M:%SZ', time.gmtime())},
                                   default=str) + '\n')
    elif not os.environ.get('SIMSTONE_REPLAY_DIR'):
        import shutil
        shutil.rmtree(replay_dir, ignore_errors=True)
    print('%s %s: runs=%d distinct=%d steps=%d faults=%d rejected=%d violations=%d known=%d harness_errors=%d wall=%.1fs' % (
        engine.property_id, tier, agg['evaluations'], len(agg['states']), agg['steps'],
        sum(agg['faults'].values()), agg['rejected'], len(reported), len(known_hit),
        len(harness_errors), wall))
    return exit_code


_rev = []


def _verif_rev():
    try:
        out = subprocess.run(['git', '-C', VERIF, 'describe', '--always', '--dirty'],
                             capture_output=True, text=True, timeout=20)
        return out.stdout.strip() or None
    except Exception:
        return None


def _stone_rev():
    if not _rev:
        try:
            out = subprocess.run(['git', '-C', REPO, 'describe', '--always', '--dirty'],
                                 capture_output=True, text=True, timeout=20).stdout.strip()
        except Exception:
            out = 'unknown'
        _rev.append(out)
    return _rev[0]
