"""Delivery schedules for a fixed set of definitions (C11): how the same model reaches the compiler.

A schedule decides: the split of each namespace's definitions over files, the order of files, the
order of definitions inside each file, noise (comments, blank lines, trailing blanks), which
parenthesised lists are broken over continuation lines, file names, and the channel (files on
argv, a directory with --recursive, or everything concatenated on stdin).
"""
import re

from . import specgen

COMMENTS = ['# a comment', '# TODO: tidy up', '#', '# struct Fake', '#   indented text',
            '# namespace other', '# union_closed X extends Y', "# it is fine", '# = ( ) , ? :',
            '# import nothing', '# 中文 comment', '#\tcomment with tab']


def _string_state(lines):
    """For each line: (inside a multi-line string at its start?, at its end?)."""
    out = []
    inside = False
    for ln in lines:
        start = inside
        i = 0
        in_comment = False
        while i < len(ln):
            c = ln[i]
            if inside:
                if c == '\\':
                    i += 2
                    continue
                if c == '"':
                    inside = False
            else:
                if c == '#':
                    break
                if c == '"':
                    inside = True
            i += 1
        out.append((start, inside))
    return out


def break_parens(line, tape_decide):
    """Break the outermost parenthesised list of a single line over continuation lines."""
    # find first '(' outside strings
    depth = 0
    in_s = False
    start = None
    i = 0
    while i < len(line):
        c = line[i]
        if in_s:
            if c == '\\':
                i += 2
                continue
            if c == '"':
                in_s = False
        else:
            if c == '"':
                in_s = True
            elif c == '#':
                break
            elif c == '(':
                if depth == 0 and start is None:
                    start = i
                depth += 1
            elif c == ')':
                depth -= 1
                if depth == 0 and start is not None:
                    end = i
                    break
        i += 1
    else:
        return [line]
    if start is None or depth != 0:
        return [line]
    inner = line[start + 1:end]
    if not inner.strip():
        return [line]
    # split at top-level commas
    parts, cur, d, in_s, j = [], '', 0, False, 0
    while j < len(inner):
        c = inner[j]
        if in_s:
            cur += c
            if c == '\\' and j + 1 < len(inner):
                cur += inner[j + 1]
                j += 2
                continue
            if c == '"':
                in_s = False
        else:
            if c == '"':
                in_s = True
                cur += c
            elif c in '([':
                d += 1
                cur += c
            elif c in ')]':
                d -= 1
                cur += c
            elif c == ',' and d == 0:
                parts.append(cur.strip())
                cur = ''
            else:
                cur += c
        j += 1
    parts.append(cur.strip())
    indent = len(line) - len(line.lstrip(' '))
    pad = ' ' * (indent + 4)     # "Line continuation must increment indent by 1"
    out = [line[:start + 1]]
    style = tape_decide(3)
    if style == 0:
        # one argument per line, closing parenthesis on the last one
        for k, p in enumerate(parts):
            out.append(pad + p + (',' if k < len(parts) - 1 else ')' + line[end + 1:]))
    elif style == 1:
        # first argument stays on the opening line
        out = [line[:start + 1] + parts[0] + (',' if len(parts) > 1 else ')' + line[end + 1:])]
        for k, p in enumerate(parts[1:], 1):
            out.append(pad + p + (',' if k < len(parts) - 1 else ')' + line[end + 1:]))
    else:
        # all arguments on one continuation line
        out.append(pad + ', '.join(parts) + ')' + line[end + 1:])
    return out


class Schedule:
    def __init__(self):
        self.files = []        # [(name, text)] in delivery order
        self.channel = 'argv'
        self.shape = {}
        self.read_sizes = None
        self.desc = []


def chunks_of(model, tape=None, multiline_pct=0):
    """-> {ns_name: {'head': [...], 'doc': [...]|None, 'imports': [chunk], 'defs': [(def, chunk)]}}"""
    out = {}
    for n in model.all_namespaces():
        defs = []
        for d in n.defs:
            lines = specgen.render_def(d)
            if tape is not None and multiline_pct:
                st = _string_state(lines)
                new = []
                for (s0, s1), ln in zip(st, lines):
                    if not s0 and not s1 and '(' in ln and tape.chance(multiline_pct):
                        new += break_parens(ln, tape.draw)
                    else:
                        new.append(ln)
                lines = new
            defs.append((d, lines))
        out[n.name] = {'doc': specgen.render_doc(n.doc, 4), 'imports': [['import %s' % i] for i in n.imports],
                       'defs': defs}
        for extra in getattr(model, 'raw_chunks', {}).get(n.name, []):
            out[n.name]['defs'].append((None, list(extra)))
    return out


def add_noise(lines, tape, rate):
    """Insert comment / blank / whitespace-only lines and trailing blanks without changing meaning."""
    st = _string_state(lines)
    out = []
    n_noise = 0
    # which lines are continuation lines of a parenthesised list (no full-line noise before them)
    depth = 0
    cont = []
    for (s0, s1), ln in zip(st, lines):
        cont.append(depth > 0)
        if not s0:
            code = ln.split('#')[0] if '"' not in ln else ln
            depth += code.count('(') - code.count(')')
            depth = max(depth, 0)
    for idx, ((s0, s1), ln) in enumerate(zip(st, lines)):
        if idx > 0 and not s0 and tape.chance(rate):
            k = tape.draw(5)
            for _ in range(tape.rng(1, 2)):
                if k == 0:
                    out.append('')
                elif k == 1:
                    out.append(' ' * tape.choice([1, 3, 4, 8, 13]))
                elif k == 2:
                    out.append(tape.choice(COMMENTS))
                elif k == 3:
                    out.append(' ' * tape.choice([1, 2, 4, 6, 8, 12, 20]) + tape.choice(COMMENTS))
                else:
                    out.append('\t')
                n_noise += 1
        if not s1 and ln.strip() and tape.chance(rate // 2):
            k = tape.draw(3)
            if k == 0:
                ln = ln + ' ' * tape.rng(1, 3)
            elif k == 1:
                # also after the closing quote of a string that began on an earlier line
                ln = ln + '  ' + tape.choice(COMMENTS)
            elif k == 2:
                ln = ln + ' #x'
            n_noise += 1
        out.append(ln)
    if tape.chance(rate):
        out.append(tape.choice(COMMENTS))
        n_noise += 1
    return out, n_noise


def make_schedule(tape, model, channel=None, noise=True, eols=True):
    t = tape
    sch = Schedule()
    ch = chunks_of(model, t, multiline_pct=t.choice([0, 0, 15, 40]))
    sch.channel = channel or t.weighted([(55, 'argv'), (20, 'recursive'), (25, 'stdin')])
    rate = t.choice([0, 5, 15, 35]) if noise else 0
    files = []     # (ns, [chunks], has_doc)
    shape = {'files_per_ns': [], 'noise': 0, 'multiline': 0}
    for ns_name, c in ch.items():
        nfiles = t.weighted([(40, 1), (25, 2), (15, 3), (10, 4), (5, 5), (5, 6)])
        buckets = [[] for _ in range(nfiles)]
        for imp in c['imports']:
            buckets[t.draw(nfiles)].append(('import', imp))
            if nfiles > 1 and t.chance(15):
                buckets[t.draw(nfiles)].append(('import', imp))
        for d, lines in c['defs']:
            buckets[t.draw(nfiles)].append(('def', lines))
        doc_at = t.draw(nfiles)
        for i, b in enumerate(buckets):
            b = t.shuffle(b)
            files.append((ns_name, b, c['doc'] if i == doc_at else []))
        shape['files_per_ns'].append(nfiles)
    files = t.shuffle(files)
    used = set()
    # line endings: a spec saved on another platform (CRLF) or edited on both (mixed) is the same text
    eol = t.weighted([(76, 'lf'), (16, 'crlf'), (8, 'mixed')]) if eols else 'lf'
    shape['eol'] = eol
    for i, (ns_name, bucket, doc) in enumerate(files):
        lines = ['namespace %s' % ns_name] + list(doc)
        for kind, chunk in bucket:
            if t.chance(80):
                lines.append('')
            lines += chunk
        if rate:
            lines, n = add_noise(lines, t, rate)
            shape['noise'] += n
        text = '\n'.join(lines) + ('\n' if t.chance(90) else '')
        if eol == 'crlf':
            text = text.replace('\n', '\r\n')
        elif eol == 'mixed':
            text = ''.join(seg + ('\r\n' if t.chance(50) else '\n') for seg in text.split('\n')[:-1]) + \
                text.split('\n')[-1]
        shape['multiline'] += sum(1 for ln in lines if ln.rstrip().endswith('(') or ln.rstrip().endswith(','))
        stem = t.choice(['a', 'b', 'z', 'm', ns_name, ns_name + '_x', 'zz_' + ns_name, '0' + ns_name])
        name = '%s_%d.stone' % (stem, i)
        if sch.channel == 'recursive' and t.chance(50):
            name = t.choice(['sub/', 'sub/deep/', 'other/']) + name
        sch.files.append((name, text))
    if sch.channel == 'stdin':
        sizes = t.choice([1, 7, 64, 4096])
        sch.read_sizes = sizes
    shape['nfiles'] = len(sch.files)
    shape['channel'] = sch.channel
    sch.shape = shape
    return sch


def shape_key(sch):
    s = sch.shape
    return '%s|files=%s|noise=%s|ml=%s|%s' % (s['channel'], sorted(s['files_per_ns'], reverse=True),
                                              'y' if s['noise'] else 'n', 'y' if s['multiline'] else 'n',
                                              s.get('eol', 'lf'))
