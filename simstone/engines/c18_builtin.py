"""C18, kind 'builtin': every built-in backend on generated specs through the real CLI,
manifest run versus real run, expected-manifest validation, injected faults."""
import json
import os

from ..driver import new_result, bump
from ..simfs import SimFS, SimCrash, scratch_dir, rm_scratch, snapshot, write_file, _real
from .. import specgen, backends
from .c18 import scrub


def prepare(engine):
    from .. import runcli  # noqa  (imports stone.cli)
    import importlib
    for b in backends.BACKENDS:
        importlib.import_module('stone.backends.' + b)


def plan(tier):
    if tier == 'smoke':
        return [('builtin', 8, 2)]
    if tier == 'thorough':
        return [('builtin', 16000, 10)]
    return [('builtin', 500, 5)]


def _build_world(scratch, files, place):
    rm_scratch(scratch)
    E = os.path.join(scratch, 'w/a/b/c/d/e')
    _real['makedirs'](os.path.join(E, 'out'))
    for sib in ('out2', 'out-evil'):
        _real['makedirs'](os.path.join(E, sib))
    write_file(os.path.join(E, 'out-evil', 'keep.txt'), b'do not touch\n')
    for fn, txt in files:
        write_file(os.path.join(scratch, 'spec', fn), txt)
    for fn, txt in place.items():
        write_file(os.path.join(E, 'out', fn), txt)
    return E


def _cli(scratch, E, argv, plan=None):
    from ..runcli import run_cli
    fs = SimFS(scratch, plan=plan)
    crashed = False
    st, out, err, exc = None, '', '', None
    cwd0 = os.getcwd()
    os.chdir(E)
    try:
        with fs:
            try:
                st, out, err, exc, _ = run_cli(argv)
            except SimCrash:
                crashed = True
    finally:
        os.chdir(cwd0)
    return {'status': st, 'out': out, 'err': err, 'exc': exc, 'crashed': crashed, 'fs': fs}


def run(engine, tape):
    res = new_result()
    scratch = scratch_dir('c18b')
    try:
        _run(engine, tape, res, scratch)
    finally:
        rm_scratch(scratch)
    scrub(res, scratch)
    return res


def _run(engine, tape, res, scratch):
    ev = res['events']
    viol = res['violations']
    cfg = specgen.Cfg(max_ns=2, max_types=5)
    model = specgen.gen_model(tape, cfg)
    files = specgen.render_reference(model)
    backend = tape.choice(backends.BACKENDS)
    sets = [s for s in backends.option_sets(backend) if model.cfg is not None or '-a' not in s[1]]
    if not sets:
        backend = 'python_types'
        sets = [backends.option_sets(backend)[0]]
    label, cli_args, bargs, place = sets[tape.draw(len(sets))]
    target = tape.choice(['out', None, './out/', '../e/out'])
    want_fault = tape.chance(60)
    want_expected = tape.chance(50)
    clean = tape.chance(10)

    E = _build_world(scratch, files, place)
    if target is None:
        target = os.path.join(E, 'out')
    specs = [os.path.join('..', '..', '..', '..', '..', '..', 'spec', fn) for fn, _ in files] \
        if tape.chance(30) else [os.path.join(scratch, 'spec', fn) for fn, _ in files]
    tail = (['--'] + bargs) if bargs else []
    base = list(cli_args) + (['--clean-build'] if clean else [])
    ev.append('backend=%s set=%s target=%r clean=%s files=%d' % (backend, label, target, clean, len(files)))
    res['trace'].append({'backend': backend, 'set': label, 'target': target, 'clean': clean,
                         'cli': cli_args, 'backend_args': bargs})
    res['artefacts']['specs'] = {fn: txt for fn, txt in files}
    rootrel = 'w/a/b/c/d/e/out'

    def inside(rel):
        return rel == rootrel or rel.startswith(rootrel + '/')

    def judge_containment(tag, p, before, after):
        for e in p['fs'].log:
            if e[0] in ('open_w', 'remove', 'rename', 'replace', 'rmdir', 'copy', 'copy2', 'copyfile',
                        'rmtree') or (e[0] in ('makedirs', 'mkdir') and e[1] in p['fs'].succeeded):
                if not inside(e[3]):
                    viol.append({'class': 'escape', 'key': 'builtin:%s:%s' % (backend, e[0]),
                                 'detail': '%s pass: %s on %r' % (tag, e[0], e[3])})
                    break
        changed = sorted(k for k in set(before) | set(after) if before.get(k) != after.get(k))
        out = [k for k in changed if not inside(k)]
        if out:
            viol.append({'class': 'escape', 'key': 'builtin:%s:tree-changed-outside' % backend,
                         'detail': '%s pass changed %r' % (tag, out[:5])})
        return changed

    # -- manifest pass ---------------------------------------------------------------
    before = snapshot(scratch)
    pm = _cli(scratch, E, ['--output-manifest'] + base + [backend, target] + specs + tail)
    after = snapshot(scratch)
    changed = judge_containment('manifest', pm, before, after)
    res['steps'] += pm['fs'].calls
    ev.append('manifest status=%r calls=%d' % (pm['status'], pm['fs'].calls))
    ev.extend(repr(e) for e in pm['fs'].log)
    bump(res['probes'], 'manifest_run')
    wrote = [e for e in pm['fs'].log if e[0] in ('open_w', 'copy', 'copy2', 'copyfile', 'rename', 'replace')]
    newfiles = [k for k in changed if after.get(k) not in (None, 'd') and not (clean and before.get(k))]
    if wrote or newfiles:
        viol.append({'class': 'manifest-wrote', 'key': 'builtin:%s' % backend,
                     'detail': 'manifest run wrote: calls=%r files=%r' % (wrote[:3], newfiles[:5])})
    mlist = None
    if pm['status'] == 0:
        try:
            mlist = json.loads(pm['out'])
        except ValueError:
            viol.append({'class': 'manifest-output', 'key': 'builtin:%s:not-json' % backend,
                         'detail': 'stdout of --output-manifest is not JSON: %r' % pm['out'][:200]})
    if pm['status'] != 0:
        res['rejected'] = True
        bump(res['probes'], 'backend_failed')

    # -- real pass ------------------------------------------------------------------------
    E = _build_world(scratch, files, place)
    before = snapshot(scratch)
    pr = _cli(scratch, E, base + [backend, target] + specs + tail)
    after = snapshot(scratch)
    changed = judge_containment('real', pr, before, after)
    res['steps'] += pr['fs'].calls
    ev.append('real status=%r calls=%d' % (pr['status'], pr['fs'].calls))
    ev.extend(repr(e) for e in pr['fs'].log)
    created = sorted(os.path.relpath(k, rootrel) for k in changed
                     if inside(k) and after.get(k) not in (None, 'd'))
    if clean:
        created = sorted(os.path.relpath(k, rootrel) for k in after
                         if inside(k) and after.get(k) not in (None, 'd'))
    if pm['status'] == 0 and pr['status'] == 0 and mlist is not None:
        bump(res['probes'], 'manifest_vs_real')
        if sorted(mlist) != created:
            viol.append({'class': 'manifest-mismatch', 'key': 'builtin:%s' % backend,
                         'detail': 'set=%s manifest=%r real=%r' % (label, sorted(mlist)[:12], created[:12])})
        if created:
            bump(res['probes'], 'inside_written')
    elif (pm['status'] == 0) != (pr['status'] == 0) and not pm['crashed']:
        viol.append({'class': 'manifest-mismatch', 'key': 'builtin:%s:status' % backend,
                     'detail': 'manifest run exit %r, real run exit %r: %s' % (
                         pm['status'], pr['status'], (pr['err'] or pm['err'])[-300:])})
    res['states'].append('builtin|%s|%s|%s|%s|n=%d' % (
        backend, label, 'ok' if pr['status'] == 0 else 'fail', 'cfg' if model.cfg else 'nocfg',
        min(len(created), 12)))

    # -- expected-manifest validation ---------------------------------------------------------
    if want_expected and pr['status'] == 0 and mlist is not None and not clean:
        good = tape.chance(50)
        lst = list(created)
        if not good:
            if lst and tape.chance(50):
                lst.pop(tape.draw(len(lst)))
            else:
                lst.append('extra/not_generated.txt')
        E = _build_world(scratch, files, place)
        # pre-existing files in the output folder (templates) count as actual outputs of the folder
        mf = os.path.join(scratch, 'spec', 'expected.json')
        use_manifest_mode = tape.chance(50)
        actual_extra = [] if use_manifest_mode else sorted(place)
        write_file(mf, json.dumps((lst + actual_extra) if good else lst + actual_extra))
        argv = (['--output-manifest'] if use_manifest_mode else []) + \
            ['--expected-output-manifest', mf] + base + [backend, target] + specs + tail
        pe = _cli(scratch, E, argv)
        res['steps'] += pe['fs'].calls
        ev.append('expected good=%s manifest_mode=%s status=%r' % (good, use_manifest_mode, pe['status']))
        bump(res['probes'], 'expected_manifest_good' if good else 'expected_manifest_bad')
        if good and pe['status'] != 0:
            viol.append({'class': 'expected-manifest', 'key': 'builtin:%s:good-refused' % backend,
                         'detail': 'correct expected manifest refused: %s' % pe['err'][-300:]})
        if not good and pe['status'] == 0:
            viol.append({'class': 'expected-manifest', 'key': 'builtin:%s:bad-accepted' % backend,
                         'detail': 'wrong expected manifest %r accepted (actual %r)' % (lst[:8], created[:8])})

    # -- fault pass ----------------------------------------------------------------------------------
    ncalls = pr['fs'].calls if not tape.chance(25) else pm['fs'].calls
    manifest_fault = ncalls == pm['fs'].calls and ncalls != pr['fs'].calls
    if want_fault and ncalls > 0:
        E = _build_world(scratch, files, place)
        k = tape.draw(ncalls)
        src = pm if manifest_fault else pr
        opk = [e for e in src['fs'].log if len(e) > 1 and e[1] == k and e[0] not in ('CRASH', 'FAULT', 'torn')]
        opname = opk[0][0] if opk else '?'
        if opname == 'open_w':
            fault = tape.weighted([(3, ('errno', 'ENOSPC')), (3, ('short', tape.rng(0, 3), 4, 'ENOSPC')),
                                   (2, ('closefail', 'EIO')), (3, ('crash',))])
        elif opname in ('makedirs', 'mkdir'):
            fault = tape.weighted([(3, ('eexist_race',)), (2, ('errno', 'EACCES')), (3, ('crash',))])
        else:
            fault = tape.weighted([(3, ('errno', 'EIO')), (2, ('errno', 'EACCES')), (3, ('crash',))])
        ev.append('fault at %d (%s) %r manifest=%s' % (k, opname, fault, manifest_fault))
        res['trace'].append({'fault_at_call': k, 'op': opname, 'fault': list(fault), 'manifest': manifest_fault})
        before = snapshot(scratch)
        argv = (['--output-manifest'] if manifest_fault else []) + base + [backend, target] + specs + tail
        pf = _cli(scratch, E, argv, plan={k: fault})
        after = snapshot(scratch)
        changed = judge_containment('faulted', pf, before, after)
        for fk, n in pf['fs'].fault_counts.items():
            bump(res['faults'], fk, n)
        bump(res['probes'], 'fault_pass')
        if pf['crashed']:
            bump(res['probes'], 'crash_pass')
        res['steps'] += pf['fs'].calls
        ev.append('faulted status=%r crashed=%s' % (pf['status'], pf['crashed']))
        if manifest_fault:
            newfiles = [x for x in changed if after.get(x) not in (None, 'd') and not (clean and before.get(x))]
            if newfiles:
                viol.append({'class': 'manifest-wrote', 'key': 'builtin:%s:under-fault' % backend,
                             'detail': 'faulted manifest run left files %r' % newfiles[:5]})
        if pf['exc'] is not None and not isinstance(pf['exc'], OSError):
            # an injected OSError may legitimately surface (stone promises no recovery); anything else is odd
            # but belongs to no stated property: recorded as a probe only
            bump(res['probes'], 'faulted_run_other_exception')
        res['states'].append('builtin-fault|%s|%s|%s|%s' % (backend, opname, fault[0],
                                                            'crash' if pf['crashed'] else pf['status']))
    res['sample'] = {'kind': 'builtin', 'backend': backend, 'set': label, 'target': target,
                     'manifest': mlist[:6] if mlist else mlist, 'real_files': created[:6],
                     'status': [pm['status'], pr['status']]}
