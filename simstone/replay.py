"""python -m simstone.replay <file>: re-run a replay file in a fresh process.

Exit 1 (and a VIOLATION line) iff the recorded violation class/key is reproduced.
"""
import json
import os
import sys


def main():
    path = sys.argv[1]
    if os.environ.get('PYTHONHASHSEED') != '0':
        env = dict(os.environ)
        env['PYTHONHASHSEED'] = '0'
        os.execve(sys.executable, [sys.executable, '-m', 'simstone.replay'] + sys.argv[1:], env)
    with open(path, encoding='utf-8') as f:
        rp = json.load(f)
    from .check import get_engine
    from .driver import Batch
    from .pool import run_one
    engine = get_engine(rp['property'])
    engine.prepare()
    batch = Batch(engine, rp['seed'], rp.get('tier', 'quick'))
    st, payload = run_one(lambda u: [batch.exec_run(rp['kind'], 0, replay=rp['tape'])],
                          (rp['kind'], [0]), cap=engine.unit_cap)
    if st != 'ok':
        print('HARNESS-ERROR: replay run %s: %s' % (st, payload))
        sys.exit(2)
    res = payload[0]
    want = rp['violation']
    for v in res['violations']:
        if v['class'] == want['class'] and v['key'] == want['key']:
            print('REPRODUCED class=%s key=%s' % (v['class'], v['key']))
            print('  detail: %s' % (str(v.get('detail'))[:2000],))
            if '-v' in sys.argv:
                for t in res.get('trace', []):
                    print('  op:', t)
            print('VIOLATION property=%s replay=%s' % (rp['property'], path))
            sys.exit(1)
    print('not reproduced: wanted %s/%s, got %r' % (
        want['class'], want['key'], [(v['class'], v['key']) for v in res['violations']]))
    sys.exit(0)


if __name__ == '__main__':
    main()
