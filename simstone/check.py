"""python -m simstone.check <ID> [--tier quick|thorough] [--seed N] [--workers N]"""
import argparse
import os
import sys


def get_engine(pid):
    from . import use_repo
    use_repo()
    pid = pid.upper()
    if pid == 'C18':
        from .engines.c18 import C18Engine
        return C18Engine()
    if pid == 'C12':
        from .engines.c12 import C12Engine
        return C12Engine()
    if pid == 'C11':
        from .engines.c11 import C11Engine
        return C11Engine()
    if pid == 'C03':
        from .engines.c03 import C03Engine
        return C03Engine()
    if pid == 'C06':
        from .engines.c06 import C06Engine
        return C06Engine()
    if pid == 'C07':
        from .engines.c07 import C07Engine
        return C07Engine()
    raise SystemExit('unknown property %s' % pid)


def main(argv=None):
    ap = argparse.ArgumentParser()
    ap.add_argument('property')
    ap.add_argument('--tier', default=os.environ.get('VERIF_TIER') or 'quick')
    ap.add_argument('--seed', type=int, default=None)
    ap.add_argument('--workers', type=int, default=None)
    ap.add_argument('--scale', type=float, default=None)
    ap.add_argument('--digest-only', default=None)
    args = ap.parse_args(argv)
    if os.environ.get('PYTHONHASHSEED') is None or (
            os.environ.get('PYTHONHASHSEED') != '0' and not os.environ.get('SIMSTONE_REEXEC')):
        env = dict(os.environ)
        env['PYTHONHASHSEED'] = '0'
        env['SIMSTONE_REEXEC'] = '1'
        os.execve(sys.executable, [sys.executable, '-m', 'simstone.check'] + (argv or sys.argv[1:]), env)
    seed = args.seed
    if seed is None:
        try:
            seed = int(os.environ.get('VERIF_SEED', '0') or 0)
        except ValueError:
            seed = 0
    tier = args.tier if args.tier in ('quick', 'thorough', 'smoke') else 'quick'
    from .driver import run_check
    engine = get_engine(args.property)
    digest_only = None
    if args.digest_only:
        digest_only = []
        for part in args.digest_only.split(','):
            k, i = part.rsplit(':', 1)
            digest_only.append((k, int(i)))
    code = run_check(engine, tier=tier, seed=seed, workers=args.workers, digest_only=digest_only,
                     scale=args.scale)
    sys.stdout.flush()
    sys.exit(code)


if __name__ == '__main__':
    main()
