#!/venv/bin/python
"""Print the traceback for the specs stored in a C03/C11 replay file (artefacts.specs)."""
import json, sys, traceback
sys.path.insert(0, '/verif')
from simstone import use_repo
use_repo()
from stone.frontend.frontend import specs_to_ir
d = json.load(open(sys.argv[1]))
specs = d['artefacts'].get('specs') or d['artefacts'].get('failing', {}).get('files')
try:
    specs_to_ir(list(specs.items()))
    print('OK')
except Exception:
    traceback.print_exc()
