"""A backend that records the canonical API signature (used by the C11 engine through the real CLI)."""
from stone.backend import Backend

RESULT = {}


class SigBackend(Backend):
    preserve_aliases = True

    def generate(self, api):
        from simstone import apisig
        RESULT['sig'] = apisig.api_sig(api)
