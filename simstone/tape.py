"""The choice tape: one integer sequence decides a whole run.

record mode: backed by random.Random(seed string); every draw is appended.
replay mode: values are read from a list (clamped to the bound, 0 once exhausted).
"""
import random


class Tape:
    """A tape may have named sub-tapes (fork): independent segments of a run (one delivery, one
    event, one schedule).  In replay a sub-tape that is absent from the file means "skip that
    segment", which is what lets the minimiser drop whole segments."""

    def __init__(self, seed=None, replay=None):
        self.values = []          # ints actually used, in order
        self.bounds = []
        self.children = {}        # name -> Tape (record: created on demand; replay: from the file)
        self.absent = False
        self._replay_children = None
        if isinstance(replay, dict):
            self._replay_children = dict(replay.get('c') or {})
            replay = replay.get('v') or []
        self._replay = None if replay is None else list(replay)
        self._pos = 0
        self._rng = random.Random(str(seed)) if replay is None else None
        self.seed = seed

    def fork(self, name):
        if self._replay is None:
            child = Tape(seed='%s/%s' % (self.seed, name))
        elif self._replay_children is not None and name in self._replay_children:
            child = Tape(replay=self._replay_children[name])
        else:
            child = Tape(replay=[])
            # an old-style flat replay has no segment information: nothing is skipped then
            child.absent = self._replay_children is not None
        self.children[name] = child
        return child

    def dump(self):
        """What was used: {'v': [...], 'c': {name: dump}} (children that drew nothing are kept too)."""
        if not self.children:
            return {'v': list(self.values), 'c': {}}
        return {'v': list(self.values), 'c': {k: c.dump() for k, c in self.children.items() if not c.absent}}

    # -- primitive -----------------------------------------------------
    def draw(self, n, label=None):
        """int in [0, n). n >= 1."""
        if n <= 1:
            v = 0
            if self._replay is not None and self._pos < len(self._replay):
                self._pos += 1
        elif self._replay is not None:
            if self._pos < len(self._replay):
                v = self._replay[self._pos]
                self._pos += 1
                if v < 0:
                    v = 0
                if v >= n:
                    v = v % n
            else:
                v = 0
        else:
            v = self._rng.randrange(n)
        self.values.append(v)
        self.bounds.append(n)
        return v

    # -- derived -------------------------------------------------------
    def chance(self, num, den=100):
        """True with probability num/den.  0 (the shrink target) means False."""
        return self.draw(den) >= den - num

    def choice(self, seq):
        return seq[self.draw(len(seq))]

    def rng(self, lo, hi):
        """int in [lo, hi]."""
        return lo + self.draw(hi - lo + 1)

    def shuffle(self, seq):
        seq = list(seq)
        for i in range(len(seq) - 1, 0, -1):
            j = self.draw(i + 1)
            j = i - j  # draw 0 == keep in place (so an all-zero tape is the identity)
            seq[i], seq[j] = seq[j], seq[i]
        return seq

    def sample(self, seq, k):
        seq = list(seq)
        out = []
        for _ in range(min(k, len(seq))):
            out.append(seq.pop(self.draw(len(seq))))
        return out

    def weighted(self, pairs):
        """pairs: [(weight, value)].  The first entry is the shrink target."""
        total = sum(w for w, _ in pairs)
        x = self.draw(total)
        for w, v in pairs:
            if x < w:
                return v
            x -= w
        return pairs[-1][1]

    def subset(self, seq, num=50, den=100):
        return [x for x in seq if self.chance(num, den)]


def shrink(values, still_fails, budget=200, deadline=None):
    """Generic tape minimiser.

    values: list of ints; still_fails(list) -> bool (same violation class/key).
    Tries: cut tail, delete spans, zero values, halve values, decrement.
    """
    import time
    calls = [0]

    def ok(cand):
        if calls[0] >= budget:
            return False
        if deadline is not None and time.monotonic() > deadline:
            return False
        calls[0] += 1
        return still_fails(cand)

    cur = list(values)
    # cut tail
    lo, hi = 0, len(cur)
    while lo < hi:
        mid = (lo + hi) // 2
        if ok(cur[:mid]):
            hi = mid
        else:
            lo = mid + 1
    if hi < len(cur) and ok(cur[:hi]):
        cur = cur[:hi]
    changed = True
    while changed and calls[0] < budget:
        changed = False
        # zero blocks
        size = max(1, len(cur) // 2)
        while size >= 1:
            i = 0
            while i < len(cur):
                if any(cur[i:i + size]):
                    cand = cur[:i] + [0] * len(cur[i:i + size]) + cur[i + size:]
                    if ok(cand):
                        cur = cand
                        changed = True
                i += size
            size //= 2
        # delete blocks
        size = max(1, len(cur) // 4)
        while size >= 1:
            i = 0
            while i < len(cur):
                cand = cur[:i] + cur[i + size:]
                if ok(cand):
                    cur = cand
                    changed = True
                else:
                    i += size
            size //= 2
        # reduce values
        for i in range(len(cur)):
            v = cur[i]
            while v > 0:
                nv = v // 2
                cand = cur[:i] + [nv] + cur[i + 1:]
                if ok(cand):
                    cur = cand
                    v = nv
                    changed = True
                else:
                    if v - 1 != nv and v - 1 >= 0:
                        cand = cur[:i] + [v - 1] + cur[i + 1:]
                        if ok(cand):
                            cur = cand
                            v = v - 1
                            changed = True
                            continue
                    break
        while cur and cur[-1] == 0 and ok(cur[:-1]):
            cur = cur[:-1]
    return cur, calls[0]


def tape_size(d):
    if isinstance(d, list):
        return len(d)
    return len(d.get('v') or []) + sum(tape_size(c) for c in (d.get('c') or {}).values())


def shrink_tree(dump, still_fails, budget=200, deadline=None):
    """Minimise a structured tape: drop sub-tapes first (halves, then single ones), then shrink the
    value lists of what is left.  -> (dump, calls)"""
    import time
    import copy
    calls = [0]

    def ok(cand):
        if calls[0] >= budget or (deadline is not None and time.monotonic() > deadline):
            return False
        calls[0] += 1
        return still_fails(cand)

    cur = copy.deepcopy(dump) if isinstance(dump, dict) else {'v': list(dump), 'c': {}}
    names = list(cur['c'])
    # drop trailing segments by binary search on the prefix length
    lo, hi = 0, len(names)
    while lo < hi:
        mid = (lo + hi) // 2
        cand = {'v': cur['v'], 'c': {k: cur['c'][k] for k in names[:mid]}}
        if ok(cand):
            hi = mid
        else:
            lo = mid + 1
    if hi < len(names):
        cand = {'v': cur['v'], 'c': {k: cur['c'][k] for k in names[:hi]}}
        if ok(cand):
            cur = cand
    # drop blocks of the remaining segments
    names = list(cur['c'])
    size = max(1, len(names) // 2)
    while size >= 1 and names:
        i = 0
        while i < len(names):
            keep = names[:i] + names[i + size:]
            cand = {'v': cur['v'], 'c': {k: cur['c'][k] for k in keep}}
            if len(keep) < len(names) and ok(cand):
                names = keep
                cur = cand
            else:
                i += size
        size //= 2
    # shrink the value lists
    rest = max(10, budget - calls[0])

    def shrink_list(get, put):
        vals = get()
        if not vals:
            return

        def f(v):
            cand = copy.deepcopy(cur)
            put(cand, v)
            return ok(cand)
        new, _ = shrink(vals, f, budget=max(5, rest // (1 + len(cur['c']))), deadline=deadline)
        put(cur, new)
    for k in list(cur['c']):
        shrink_list(lambda k=k: cur['c'][k]['v'] if isinstance(cur['c'][k], dict) else cur['c'][k],
                    lambda d, v, k=k: d['c'][k].__setitem__('v', v) if isinstance(d['c'][k], dict)
                    else d['c'].__setitem__(k, v))
    shrink_list(lambda: cur['v'], lambda d, v: d.__setitem__('v', v))
    return cur, calls[0]
