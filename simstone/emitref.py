"""Reference pretty-printer for the Backend emit API (docs/backend_ref.rst).

render(body_ops, tabs) -> list of segments:
  ('text', str)
  ('wrap', first_prefix, rest_prefix, words, width, break_long, break_hyphens)
matches(segments, actual_text) -> None or a description of the first mismatch.
Wrapped text is not predicted byte for byte: what is demanded is every word in
order, every line carrying its prefix, and no over-long line that could have
been avoided by the documented rules.
"""


class _Ref:
    def __init__(self, tabs):
        self.tabs = tabs
        self.cur = 0
        self.segs = []        # ('text', s) | ('wrap', ...) | ('ph', name or None)
        self.pos = []
        self.named = {}

    def ind(self):
        return ('\t' if self.tabs else ' ') * self.cur

    def step(self):
        return 1 if self.tabs else 4

    def text(self, s):
        self.segs.append(('text', s))

    def emit(self, s=''):
        if s:
            self.text(self.ind() + s + '\n')
        else:
            self.text('\n')

    def run(self, ops):
        for op in ops:
            k = op['op']
            if k == 'emit':
                self.emit(op['s'])
            elif k == 'raw':
                self.text(op['s'])
            elif k == 'wrap':
                kw = op['kw']
                prefix = self.ind() + kw.get('prefix', '')
                self.segs.append(('wrap',
                                  prefix + kw.get('initial_prefix', ''),
                                  prefix + kw.get('subsequent_prefix', ''),
                                  op['s'].split(),
                                  kw.get('width', 80),
                                  kw.get('break_long_words', False),
                                  kw.get('break_on_hyphens', False)))
            elif k == 'indent':
                d = op['dent']
                if d is None:
                    d = self.step()
                self.cur += d
                self.run(op['body'])
                self.cur -= d
            elif k == 'block':
                kw = op['kw']
                before = kw.get('before', '')
                after = kw.get('after', '')
                d0, d1 = kw.get('delim', ('{', '}'))
                dent = kw.get('dent')
                if before and not kw.get('allman', False):
                    self.emit(before + ' ' + d0 if d0 is not None else before)
                else:
                    if before:
                        self.emit(before)
                    if d0 is not None:
                        self.emit(d0)
                if dent is None:
                    dent = self.step()
                self.cur += dent
                self.run(op['body'])
                self.cur -= dent
                self.emit(d1 + after if d1 is not None else after)
            elif k == 'mlist':
                self.mlist(op['items'], **op['kw'])
            elif k == 'ph':
                self.segs.append(('ph', op['name'] or None))
            elif k == 'pos':
                self.pos.append(op['s'])
            elif k == 'named':
                self.named[op['name']] = op['s']
            else:
                raise RuntimeError(k)

    def mlist(self, items, before='', after='', delim=('(', ')'), compact=True, sep=',',
              skip_last_sep=False):
        d0, d1 = delim
        if len(items) == 0:
            self.emit(before + d0 + d1 + after)
            return
        if len(items) == 1:
            self.emit(before + d0 + items[0] + d1 + after)
            return
        if compact:
            self.emit(before + d0 + items[0] + sep)
            add = len(before) + len(d0)
            self.cur += add
            rest = items[1:]
            for i, it in enumerate(rest):
                if i == len(rest) - 1:
                    self.emit(it + d1 + after)
                else:
                    self.emit(it + sep)
            self.cur -= add
        else:
            if before or d0:
                self.emit(before + d0)
            self.cur += self.step()
            for i, it in enumerate(items):
                if i == len(items) - 1 and skip_last_sep:
                    self.emit(it)
                else:
                    self.emit(it + sep)
            self.cur -= self.step()
            if d1 or after:
                self.emit(d1 + after)


def render(body, tabs=False):
    r = _Ref(tabs)
    r.run(body)
    out = []
    npos = 0
    for s in r.segs:
        if s[0] == 'ph':
            if s[1] is None:
                out.append(('text', r.pos[npos]))
                npos += 1
            else:
                out.append(('text', r.named[s[1]]))
        else:
            out.append(s)
    # merge adjacent text
    merged = []
    for s in out:
        if s[0] == 'text' and merged and merged[-1][0] == 'text':
            merged[-1] = ('text', merged[-1][1] + s[1])
        else:
            merged.append(s)
    return merged


def _match_wrap(text, pos, seg):
    _, first, rest, words, width, brk_long, brk_hyph = seg
    if not words:
        # textwrap.fill('') is '' -> a bare newline; a prefixed empty line is fine as well
        if text.startswith(first + '\n', pos):
            return pos + len(first) + 1, None
        if text.startswith('\n', pos):
            return pos + 1, None
        return None, 'empty wrapped text: expected an empty line'
    if not text.startswith(first, pos):
        return None, 'wrapped text: first-line prefix %r missing' % first
    line_start = pos
    pos += len(first)
    words_on_line = 0
    for wi, w in enumerate(words):
        ci = 0
        while ci < len(w):
            if pos < len(text) and text[pos] == w[ci]:
                pos += 1
                ci += 1
                continue
            # a break inside the word?
            near_hyphen = brk_hyph and ((ci > 0 and w[ci - 1] == '-') or w[ci] == '-')
            if pos < len(text) and text[pos] == '\n' and ci > 0 and (brk_long or near_hyphen) \
                    and text.startswith(rest, pos + 1):
                pos += 1 + len(rest)
                line_start = pos - len(rest)
                words_on_line = 0
                continue
            return None, 'wrapped text: word %d %r not found intact at offset %d' % (wi, w, pos)
        words_on_line += 1
        if wi == len(words) - 1:
            break
        if text.startswith(' \n', pos) and brk_long:
            pos += 1   # textwrap leaves a trailing blank when it gives up a line before a long word
        if pos < len(text) and text[pos] == ' ':
            pos += 1
        elif pos < len(text) and text[pos] == '\n':
            if not text.startswith(rest, pos + 1):
                return None, 'wrapped text: continuation prefix %r missing' % rest
            pos += 1 + len(rest)
            line_start = pos - len(rest)
            words_on_line = 0
        else:
            return None, 'wrapped text: separator after word %d missing' % wi
    if pos >= len(text) or text[pos] != '\n':
        return None, 'wrapped text: missing final newline'
    return pos + 1, None


def matches(segments, actual):
    """None if `actual` is a legal rendering of `segments`, else a message."""
    pos = 0
    for seg in segments:
        if seg[0] == 'text':
            s = seg[1]
            if not actual.startswith(s, pos):
                # find first differing char for the message
                i = 0
                while i < len(s) and pos + i < len(actual) and actual[pos + i] == s[i]:
                    i += 1
                return 'text differs at offset %d: expected %r, got %r' % (
                    pos + i, s[i:i + 24], actual[pos + i:pos + i + 24])
            pos += len(s)
        else:
            npos, err = _match_wrap(actual, pos, seg)
            if err:
                return err + ' (offset %d: %r)' % (pos, actual[pos:pos + 40])
            # width rule: a line longer than width must be unavoidable
            _, first, rest, words, width, brk_long, brk_hyph = seg
            for ln_i, ln in enumerate(actual[pos:npos - 1].split('\n')):
                pre = first if ln_i == 0 else rest
                body = ln[len(pre):]
                if len(ln) > width and ' ' in body.strip(' '):
                    return 'wrapped line longer than width %d although it holds several words: %r' % (
                        width, ln)
            pos = npos
    if pos != len(actual):
        return 'trailing output: %r' % actual[pos:pos + 40]
    return None


def expected_plain(segments):
    """Exact expected text when no wrap segment is present, else None."""
    if any(s[0] != 'text' for s in segments):
        return None
    return ''.join(s[1] for s in segments)
