"""A backend whose generate() executes an op list against the public Backend API."""
import os

from . import use_repo

use_repo()
from stone.backends.swift import SwiftBaseBackend  # noqa: E402


class Script:
    """Mutable holder passed to the backend through a class attribute."""
    ops = []
    tabs = False
    src_dir = ''
    fs = None          # SimFS, to window the log per op
    outcomes = None


def _run_emit_ops(b, ops):
    for op in ops:
        k = op['op']
        if k == 'emit':
            b.emit(op['s'])
        elif k == 'raw':
            b.emit_raw(op['s'])
        elif k == 'wrap':
            b.emit_wrapped_text(op['s'], **op['kw'])
        elif k == 'indent':
            with b.indent(op['dent']):
                _run_emit_ops(b, op['body'])
        elif k == 'block':
            kw = dict(op['kw'])
            if 'delim' in kw:
                kw['delim'] = tuple(kw['delim'])
            with b.block(**kw):
                _run_emit_ops(b, op['body'])
        elif k == 'mlist':
            kw = dict(op['kw'])
            if 'delim' in kw:
                kw['delim'] = tuple(kw['delim'])
            b.generate_multiline_list(list(op['items']), **kw)
        elif k == 'ph':
            b.emit_placeholder(op['name'])
        elif k == 'pos':
            b.add_positional_placeholder(op['s'])
        elif k == 'named':
            b.add_named_placeholder(op['name'], op['s'])
        else:
            raise RuntimeError('unknown emit op %r' % (k,))


def make_backend_class(script):
    class ScriptedBackend(SwiftBaseBackend):
        tabs_for_indents = script.tabs

        def generate(self, api):
            outcomes = script.outcomes
            for i, op in enumerate(script.ops):
                k = op['op']
                start = script.fs.calls if script.fs is not None else 0
                lstart = len(script.fs.log) if script.fs is not None else 0
                res = 'ok'
                isdir = None
                try:
                    if k == 'file':
                        with self.output_to_relative_path(op['path'], mode=op.get('mode', 'wb')):
                            _run_emit_ops(self, op['body'])
                    elif k == 'copy':
                        dst = op['dst']
                        if op.get('join'):
                            dst = os.path.join(self.target_folder_path, dst)
                        isdir = os.path.isdir(dst)   # the harness's own observation
                        self.copy_to_path(os.path.join(script.src_dir, op['src']), dst)
                    elif k == 'swift':
                        self._write_output_in_target_folder(op['text'], op['name'])
                    else:
                        _run_emit_ops(self, [op])
                except Exception as e:  # noqa
                    res = 'exc:' + type(e).__name__
                lend = len(script.fs.log) if script.fs is not None else 0
                outcomes.append((i, res, lstart, lend, isdir))
    ScriptedBackend.__name__ = 'ScriptedBackend'
    return ScriptedBackend


class FakeModule:
    """What Compiler._execute_backend_on_spec iterates with dir()/getattr()."""

    def __init__(self, cls):
        self.ScriptedBackend = cls
