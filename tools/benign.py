#!/venv/bin/python
"""False-alarm control: apply a benign patch (seeded/benign-*/patch.diff) to a scratch copy of /repo and
run every quick check against it; every check must exit 0.   tools/benign.py <id>... [--props C06,C07]"""
import json, os, shutil, subprocess, sys, tempfile, time
HERE = os.path.dirname(os.path.abspath(__file__))
VERIF = os.path.dirname(HERE)
args = [a for a in sys.argv[1:] if not a.startswith('--')]
props = ['C18', 'C12', 'C11', 'C03', 'C06', 'C07']
for a in sys.argv[1:]:
    if a.startswith('--props='):
        props = a.split('=')[1].split(',')
bad = 0
for bid in args:
    patch = os.path.join(VERIF, 'seeded', bid, 'patch.diff')
    d = tempfile.mkdtemp(prefix='benign-', dir='/dev/shm')
    dst = os.path.join(d, 'repo')
    subprocess.run(['rsync', '-a', '--exclude', '.git', '--exclude', '__pycache__', '--exclude', '*.egg-info',
                    '/repo/', dst + '/'], check=True)
    subprocess.run(['patch', '-p1', '-s', '-d', dst, '-i', patch], check=True)
    try:
        for p in props:
            env = dict(os.environ, VERIF_REPO=dst, SIMSTONE_NO_EVIDENCE='1')
            env.pop('PYTHONHASHSEED', None); env.pop('SIMSTONE_REEXEC', None)
            t0 = time.time()
            r = subprocess.run(['/venv/bin/python', '-m', 'simstone.check', p, '--tier', 'quick'], cwd=VERIF, env=env,
                               capture_output=True, text=True, timeout=3600)
            tail = [l for l in r.stdout.splitlines() if l.startswith(('VIOLATION', '  class=', 'HARNESS'))]
            ok = r.returncode == 0
            print('%-12s %s  %s  %.0fs %s' % (bid, p, 'quiet' if ok else 'ALARM(exit %d)' % r.returncode,
                                               time.time() - t0, ' | '.join(t[:200] for t in tail[:4])))
            sys.stdout.flush()
            bad += 0 if ok else 1
    finally:
        shutil.rmtree(d, ignore_errors=True)
sys.exit(1 if bad else 0)
