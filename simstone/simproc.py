"""Parent side of SimProc: spawn one simulated process for a history of steps."""
import json
import os
import shutil
import subprocess
import sys

from . import REPO, VERIF

_SETARCH = shutil.which('setarch')


def spawn(job, hashseed, timeout=180):
    """job: dict as described in proc.py (scratch, addr_seed, steps).  -> result dict."""
    path = os.path.join(job['scratch'], 'job.json')
    with open(path, 'w', encoding='utf-8') as f:
        json.dump(job, f)
    env = {
        'PATH': '/usr/bin:/bin',
        'PYTHONHASHSEED': str(hashseed),
        'PYTHONPATH': '%s:%s' % (VERIF, REPO),
        'VERIF_REPO': REPO,
        'LANG': 'C.UTF-8',
        'PYTHONDONTWRITEBYTECODE': '1',
        'HOME': '/nonexistent',
    }
    cmd = [sys.executable, '-m', 'simstone.proc', path]
    if _SETARCH:
        cmd = [_SETARCH, 'x86_64', '-R'] + cmd
    try:
        p = subprocess.run(cmd, env=env, cwd=VERIF, capture_output=True, timeout=timeout)
    except subprocess.TimeoutExpired:
        return {'error': 'timeout'}
    line = [ln for ln in p.stdout.decode('utf-8', 'replace').splitlines() if ln.startswith('SIMPROC ')]
    if not line:
        return {'error': 'no result (exit %s): %s' % (p.returncode, p.stderr.decode('utf-8', 'replace')[-1500:])}
    return json.loads(line[-1][8:])
