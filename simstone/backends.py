"""Option sets for the 11 built-in backends (obj_c_tests is listed by the CLI but has no module)."""
import json

BACKENDS = ['python_types', 'python_type_stubs', 'python_client', 'js_types', 'js_client',
            'tsd_types', 'tsd_client', 'swift_types', 'swift_client', 'obj_c_types', 'obj_c_client']

STYLES = {"rpc": "RpcRequest", "upload": "UploadRequest", "download_file": "DownloadRequestFile",
          "download_memory": "DownloadRequestMemory"}
CLIENT_ARGS = {
    "upload": [["upload", [["uploadData", "input", "Data", "The file to upload, as a Data object."]]],
               ["upload", [["uploadURL", "input", "URL", "The file to upload, as a URL object."]]]],
    "download": [["download_file", [["overwrite", "overwrite", "Bool", "Overwrite or not."],
                                    ["destination", "destination", "URL", "Where to save."]]],
                 ["download_memory", []]],
}

OBJC_CLIENT_ARGS = {
    "upload": [["upload", ["Url", [["inputUrl", "inputUrl", "NSString *", "The file to upload."]]]],
               ["upload", ["Data", [["inputData", "inputData", "NSData *", "The data to upload."]]]]],
    "download": [["download_file", ["Url", [["overwrite", "overwrite", "BOOL", "Overwrite or not."],
                                            ["destination", "destination", "NSURL *", "Where to save."]]]],
                 ["download_memory", ["Data", []]]],
}

TSD_TEMPLATE = "// header\n/*IMPORT*/\n/*TYPES*/\n/*ROUTES*/\n// footer\n"


def option_sets(backend):
    """-> [(label, cli_args, backend_args, files_to_place_in_output_dir)]"""
    if backend == 'python_types':
        return [('plain', [], ['-p', 'pkg'], {}),
                ('route-method', [], ['-p', 'pkg', '-r', 'dropbox.dropbox.Dropbox.{ns}_{route}'], {}),
                ('package', ['-a', ':all'], ['-p', 'pkg.sub'], {})]
    if backend == 'python_type_stubs':
        return [('plain', [], ['-p', 'pkg'], {}), ('package', [], ['-p', 'pkg.sub'], {})]
    if backend == 'python_client':
        return [('plain', [], ['-m', 'client', '-c', 'Client', '-t', 'pkg'], {}),
                ('attrs', ['-a', ':all'], ['-m', 'base', '-c', 'Base', '-t', 'pkg.t', '-a', 'auth',
                                           '-a', 'host', '-e', 'pkg.errors.{ns}.{route}Error'], {}),
                ('auth', ['-a', 'auth'], ['-m', 'base', '-c', 'Base', '-t', 'pkg', '-w', 'user'], {})]
    if backend == 'js_types':
        return [('plain', [], ['types.js'], {}),
                ('extra', ['-a', ':all'], ['types.js', '-e', json.dumps(
                    {"match": ["style", "upload"], "arg_name": "contents", "arg_type": "Object",
                     "arg_docstring": "The file contents."}), '-e', json.dumps(
                    {"match": ["style", "download"], "arg_name": "range", "arg_type": "string",
                     "arg_docstring": "A byte range."}), '-e', json.dumps(
                    {"match": ["host", "content"], "arg_name": "hint", "arg_type": "string",
                     "arg_docstring": "A routing hint."})], {}),
                # the same with the attributes named one by one instead of :all
                ('extra-attrs', ['-a', 'style', '-a', 'host', '-a', 'auth'], ['types.js'] + [
                    x for m, n in ((["style", "upload"], "contents"), (["style", "download"], "range"),
                                   (["host", "content"], "hint"), (["host", "api"], "api_hint"),
                                   (["auth", "user"], "token"))
                    for x in ('-e', json.dumps({"match": m, "arg_name": n, "arg_type": "string",
                                                "arg_docstring": "Extra."}))], {})]
    if backend == 'js_client':
        return [('plain', [], ['routes.js'], {}),
                ('opts', ['-a', ':all'], ['routes.js', '-c', 'Box', '--wrap-response-in', 'Resp',
                                          '--wrap-error-in', 'Err', '-a', 'style', '-a', 'auth', '-a', 'host',
                                          '--request-options'], {}),
                ('all-attrs', ['-a', ':all'], ['routes.js', '-a', 'style', '-a', 'since', '-a', 'ratio', '-a', 'weight',
                                               '-a', 'scope', '-a', 'is_preview', '-a', 'select_mode'], {})]
    if backend == 'tsd_types':
        return [('plain', [], ['tmpl.d.ts', 'out.d.ts'], {'tmpl.d.ts': TSD_TEMPLATE}),
                ('opts', [], ['tmpl.d.ts', '-i', '1', '-s', '4', '-p', 'Mod', '--export-namespaces',
                              '--exclude_error_types'], {'tmpl.d.ts': TSD_TEMPLATE}),
                ('extra-attrs', ['-a', 'style', '-a', 'host', '-a', 'auth'], ['tmpl.d.ts', 'out.d.ts'] + [
                    x for m, n in ((["style", "upload"], "contents"), (["style", "download"], "range"),
                                   (["host", "content"], "hint"), (["host", "api"], "api_hint"),
                                   (["auth", "user"], "token"))
                    for x in ('-e', json.dumps({"match": m, "arg_name": n, "arg_type": "string",
                                                "arg_docstring": "Extra."}))], {'tmpl.d.ts': TSD_TEMPLATE})]
    if backend == 'tsd_client':
        return [('plain', [], ['tmpl.d.ts', 'client.d.ts'], {'tmpl.d.ts': TSD_TEMPLATE}),
                ('opts', ['-a', ':all'], ['tmpl.d.ts', 'client.d.ts', '-i', '2', '-s', '2',
                                          '--wrap-response-in', 'Resp', '--wrap-error-in', 'Err',
                                          '--import-namespaces', '--types-file', './types', '-a', 'style',
                                          '-a', 'host', '-a', 'auth'],
                 {'tmpl.d.ts': TSD_TEMPLATE}),
                ('all-attrs', ['-a', ':all'], ['tmpl.d.ts', 'client.d.ts', '-a', 'style', '-a', 'since', '-a', 'ratio',
                                               '-a', 'weight', '-a', 'scope', '-a', 'is_preview', '-a', 'select_mode'],
                 {'tmpl.d.ts': TSD_TEMPLATE})]
    if backend == 'swift_types':
        return [('plain', [], [], {}),
                ('objc', [], ['--objc', '-r', 'Client.{ns}.{route}'], {})]
    if backend == 'swift_client':
        base = ['-m', 'Mod', '-c', 'Cls', '-t', 'Transport', '-y', json.dumps(CLIENT_ARGS),
                '-z', json.dumps(STYLES)]
        return [('plain', ['-a', ':all'], base, {}),
                ('objc', ['-a', ':all'], base + ['--objc'], {}),
                ('auth', ['-a', ':all'], base + ['-w', 'user'], {})]
    if backend == 'obj_c_types':
        return [('plain', ['-a', ':all'], [], {}),
                ('route-method', ['-a', ':all'], ['-r', '[DBClient {ns}Routes]'], {})]
    if backend == 'obj_c_client':
        base = ['-m', 'Mod', '-c', 'Cls', '-t', 'Transport', '-y', json.dumps(OBJC_CLIENT_ARGS),
                '-z', json.dumps(STYLES)]
        return [('plain', ['-a', ':all'], base, {}),
                ('auth', ['-a', ':all'], base + ['-w', 'user'], {})]
    raise KeyError(backend)
