"""Spec model generator and renderer (workload, shared by all engines).

The generator only builds models the language reference allows (DESIGN.md appendix A).
A model is a tree of small mutable objects so that the C07 engine can edit it.
"""
import copy
import datetime

INT_RANGES = {
    'Int32': (-2 ** 31, 2 ** 31 - 1), 'Int64': (-2 ** 63, 2 ** 63 - 1),
    'UInt32': (0, 2 ** 32 - 1), 'UInt64': (0, 2 ** 64 - 1),
}
FLOAT32_MAX = 3.40282e38

TYPE_NAMES = ['Account', 'Team', 'Folder', 'Entry', 'Meta', 'Photo', 'Video', 'Member', 'Group',
              'Policy', 'Event', 'Cursor', 'Page', 'Link', 'Owner', 'Status', 'Mode', 'Color',
              'Shape', 'Outcome', 'Info', 'Detail', 'Token', 'Quota', 'Usage', 'Limit', 'Rule',
              'Action', 'Target', 'Source', 'Batch', 'Job', 'Space', 'Device', 'Session', 'Note',
              'Label', 'Thumb', 'Range', 'Plan', 'Invite', 'Audit', 'Media', 'Lock', 'Share']
FIELD_NAMES = ['id', 'name', 'size', 'path', 'rev', 'count', 'flag', 'kind', 'note', 'tags', 'items',
               'owner', 'limit', 'cursor', 'value', 'data', 'email', 'when', 'ratio', 'hash_code',
               'parent_id', 'is_ok', 'namespace_id', 'title', 'body', 'level', 'state', 'ts',
               'width', 'height', 'extra', 'meta', 'child', 'peer', 'more', 'opts', 'blob', 'seq',
               'quota', 'mode', 'color', 'shape']
TAG_NAMES = ['basic', 'pro', 'team_plan', 'pending', 'active', 'closed', 'file', 'folder', 'deleted',
             'small', 'large', 'path_error', 'too_many', 'ok_now', 'red', 'green', 'blue', 'circle',
             'square', 'point', 'anyone', 'nobody', 'members', 'unknown_kind', 'locked', 'busy',
             'retry', 'quota_hit', 'not_found', 'conflict']
ROUTE_NAMES = ['get_info', 'list_items', 'upload', 'delete_item', 'move', 'copy_batch', 'check',
               'get_meta', 'search', 'share', 'revoke', 'poll', 'files/list', 'files/get_temp']
NS_NAMES = ['files', 'users', 'common', 'team', 'sharing', 'auth_ns', 'paper']
ALIAS_NAMES = ['Id', 'Name', 'Path', 'Rev', 'Date', 'Blob', 'Small', 'Big', 'Ratio', 'Names',
               'Dict', 'MaybeName', 'Code', 'Stamp', 'Ref', 'Refs']
ANN_NAMES = ['InternalOnly', 'TeamOnly', 'AdminOnly', 'Blot', 'Hashed', 'Old', 'Beta', 'Imp1',
             'Imp2', 'Imp3', 'Imp4', 'Mark1', 'Mark2']
ANNTYPE_NAMES = ['Noteworthy', 'Sensitive', 'Marker']
CALLERS = ['internal', 'team', 'admin']
EX_LABELS = ['default', 'alt']

PATTERNS = [
    ('[a-z]+', ['abc', 'z', 'hello'], ['', 'A1', 'ab c']),
    ('[0-9]{3}', ['123', '000'], ['12', '1234', 'abc']),
    ('(foo|bar)baz', ['foobaz', 'barbaz'], ['baz', 'foo']),
    ('[^@]+@[^@]+', ['a@b', 'xy@zz.com'], ['ab', '@']),
    ('a.c', ['abc', 'a-c'], ['ac', 'abcd']),
    ('x*', ['', 'x', 'xxxx'], ['y', 'xy']),
]
TS_FORMATS = ['%Y-%m-%dT%H:%M:%SZ', '%Y-%m-%d', '%d/%m/%Y %H:%M', '%Y%m%d', '%Y-%m-%d %H:%M:%S']
DOC_WORDS = ['The', 'value', 'of', 'this', 'namespace', 'is', 'a', 'thing.', 'See', 'also',
             'curly {braces}', 'and', '100%', "it's", 'naïve', 'fine', 'when', 'set', 'to',
             'zero', 'or', 'more', '(optional)', 'items;', 'never', 'empty', '\\"quoted\\"',
             'back\\\\slash', '中文', 'struct', 'union', 'route', 'import', '#hash', 'x=1']


class T:
    """Type reference."""

    def __init__(self, kind, **kw):
        self.kind = kind          # prim | list | map | nullable | ref
        self.__dict__.update(kw)

    def __repr__(self):
        return 'T(%s)' % ', '.join('%s=%r' % kv for kv in sorted(self.__dict__.items()))


def prim(name, **args):
    return T('prim', name=name, args=dict(args))


class Obj:
    def __init__(self, **kw):
        self.__dict__.update(kw)

    def __repr__(self):
        return '%s(%s)' % (self.__class__.__name__, getattr(self, 'name', ''))


class Field(Obj):
    pass      # name, type, default (None | ('lit', v) | ('tag', name)), doc, anns [(ns,name)]


class Tag(Obj):
    pass      # name, type (T or None), doc


class Alias(Obj):
    pass      # name, ns, type, doc, anns


class Struct(Obj):
    pass      # name, ns, parent (ns,name)|None, fields, doc, subtypes None|{'closed','tags':[(tag,(ns,name))]}, examples


class Union(Obj):
    pass      # name, ns, closed, parent, tags, doc, examples


class Route(Obj):
    pass      # name, ns, version, arg, result, error (T or None for Void), doc, deprecated, attrs


class AnnDef(Obj):
    pass      # name, ns, kind (str builtin) | ('custom', ns, name), args [(key|None, value)]


class AnnType(Obj):
    pass      # name, ns, doc, params [Field]


class Patch(Obj):
    pass      # ns, target, fields (struct) or tags (union), kind ('struct','union','union_closed')


class Example(Obj):
    pass      # label, doc, values [(field, exval)]; exval: ('lit', v) | ('label', l) | ('null',) | ('list',[...]) | ('map', [(k,v)])


class Namespace(Obj):
    pass      # name, doc, imports [ns names], defs [..]


class Model:
    def __init__(self):
        self.namespaces = {}      # name -> Namespace, in dependency order
        self.cfg = None           # Namespace 'stone_cfg' or None

    def clone(self):
        return copy.deepcopy(self)

    def all_namespaces(self):
        out = list(self.namespaces.values())
        if self.cfg is not None:
            out.append(self.cfg)
        return out

    def lookup(self, ns, name):
        n = self.namespaces.get(ns) or (self.cfg if self.cfg and self.cfg.name == ns else None)
        for d in n.defs:
            if isinstance(d, (Alias, Struct, Union)) and d.name == name:
                return d
        raise KeyError((ns, name))

    def types(self, ns=None):
        for n in self.namespaces.values():
            if ns is not None and n.name != ns:
                continue
            for d in n.defs:
                if isinstance(d, (Struct, Union)):
                    yield d

    def resolve(self, t):
        """Strip aliases (not nullables) from a type reference: returns a T that is not an alias ref."""
        seen = 0
        while t.kind == 'ref':
            d = self.lookup(t.ns, t.name)
            if isinstance(d, Alias):
                t = d.type
                seen += 1
                assert seen < 20
            else:
                break
        return t

    def unwrap(self, t):
        """(-> inner type with aliases and nullable stripped, nullable?)"""
        nullable = False
        while True:
            t = self.resolve(t)
            if t.kind == 'nullable':
                nullable = True
                t = t.inner
            else:
                return t, nullable

    def patches_for(self, d):
        out = []
        for n in self.namespaces.values():
            if n.name != d.ns:
                continue
            for p in n.defs:
                if isinstance(p, Patch) and p.target == d.name:
                    out.append(p)
        return out

    def own_fields(self, s):
        f = list(s.fields)
        for p in self.patches_for(s):
            f += p.fields
        return f

    def all_fields(self, s):
        out = []
        if s.parent:
            out += self.all_fields(self.lookup(*s.parent))
        return out + self.own_fields(s)

    def own_tags(self, u):
        t = list(u.tags)
        for p in self.patches_for(u):
            t += p.tags
        return t

    def all_tags(self, u):
        out = []
        if u.parent:
            out += self.all_tags(self.lookup(*u.parent))
        return out + self.own_tags(u)

    def subtypes_of(self, s):
        """direct subtypes listed by an enumerating struct -> [(tag, Struct)]"""
        if not s.subtypes:
            return []
        return [(tag, self.lookup(*ref)) for tag, ref in s.subtypes['tags']]

    def enum_root(self, s):
        """The enumerating ancestor (or self) of a struct, or None."""
        cur = s
        while cur is not None:
            if cur.subtypes:
                return cur
            cur = self.lookup(*cur.parent) if cur.parent else None
        return None


# ----------------------------------------------------------------------------------------
# generation

class Cfg:
    def __init__(self, **kw):
        self.max_ns = 3
        self.max_types = 7          # per namespace
        self.routes = True
        self.annotations = True
        self.custom_annotations = True
        self.examples = True
        self.patches = True
        self.docs = True
        self.stone_cfg = True
        self.cycles = True
        self.py_safe = True
        self.rich_docs = True
        self.tag_annotations = False
        self.nested_label_lists = False
        self.ann_prob = 60
        self.size = None
        self.__dict__.update(kw)


class Gen:
    def __init__(self, tape, cfg):
        self.t = tape
        self.cfg = cfg
        self.m = Model()
        self.used = {}       # ns -> set of names

    # -- helpers ----------------------------------------------------------------
    def fresh(self, ns, pool, suffix_ok=True):
        used = self.used.setdefault(ns, set())
        start = self.t.draw(len(pool))
        for k in range(len(pool)):
            n = pool[(start + k) % len(pool)]
            if canon(n) not in used and canon(n) != canon(ns):
                used.add(canon(n))
                return n
        i = 2
        while True:
            n = '%s%d' % (pool[start], i)
            if canon(n) not in used:
                used.add(canon(n))
                return n
            i += 1

    def doc(self, ctx=None, short=False):
        if not self.cfg.docs or not self.t.chance(55):
            return None
        n = self.t.rng(1, 4 if short else 14)
        words = [self.t.choice(DOC_WORDS) for _ in range(n)]
        if self.cfg.rich_docs and ctx and self.t.chance(40):
            ref = self.doc_ref(ctx)
            if ref:
                words.insert(self.t.draw(len(words) + 1), ref)
        lines = [' '.join(words)]
        if not short and len(words) > 6 and self.t.chance(40):
            k = len(words) // 2
            lines = [' '.join(words[:k]), ' '.join(words[k:])]
            if self.t.chance(30):
                lines.insert(1, '')
        return lines

    def doc_ref(self, ctx):
        ns = ctx['ns']
        kind = self.t.choice(['type', 'field', 'val', 'link', 'route'])
        if kind == 'type':
            cands = [d for d in self.m.namespaces[ns].defs if isinstance(d, (Struct, Union))]
            if cands:
                return ':type:`%s`' % self.t.choice(cands).name
        if kind == 'field':
            cands = [d for d in self.m.namespaces[ns].defs
                     if isinstance(d, Struct) and d.fields or isinstance(d, Union) and d.tags]
            if cands:
                d = self.t.choice(cands)
                names = [f.name for f in (d.fields if isinstance(d, Struct) else d.tags)]
                return ':field:`%s.%s`' % (d.name, self.t.choice(names))
        if kind == 'route':
            cands = [d for d in self.m.namespaces[ns].defs if isinstance(d, Route)]
            if cands:
                r = self.t.choice(cands)
                return ':route:`%s`' % (r.name if r.version == 1 else '%s:%d' % (r.name, r.version))
        if kind == 'link':
            return ':link:`Stone repo https://example.com/a%20b`'
        return ':val:`%s`' % self.t.choice(['true', 'false', 'null', '3', '1.5'])

    # -- primitive types -----------------------------------------------------------
    def gen_prim(self, allow=('String', 'Int32', 'Int64', 'UInt32', 'UInt64', 'Float32', 'Float64',
                              'Boolean', 'Bytes', 'Timestamp')):
        t = self.t
        name = t.choice(list(allow))
        args = {}
        if name in INT_RANGES and t.chance(45):
            lo, hi = INT_RANGES[name]
            a = t.choice([lo, 0, 1, -5 if lo < 0 else 2, 10, hi - 1])
            b = t.choice([hi, 100, 1000, 11, hi - 1])
            a, b = max(lo, min(a, b)), min(hi, max(a, b))
            if t.chance(70):
                args['min_value'] = a
            if t.chance(70):
                args['max_value'] = b
        elif name in ('Float32', 'Float64') and t.chance(40):
            if t.chance(70):
                args['min_value'] = t.choice([0.0, -1.5, -100.0, 0.25])
            if t.chance(70):
                args['max_value'] = t.choice([1.0, 100.0, 1e6, 0.5])
            if 'min_value' in args and 'max_value' in args and args['min_value'] > args['max_value']:
                del args['min_value']
        elif name == 'String' and t.chance(55):
            k = t.draw(4)
            if k == 0:
                pat = t.choice(PATTERNS)
                args['pattern'] = pat[0]
            else:
                if t.chance(60):
                    args['min_length'] = t.choice([0, 1, 2, 3])
                if t.chance(60):
                    args['max_length'] = t.choice([3, 5, 10, 40])
        elif name == 'Timestamp':
            args['format'] = t.choice(TS_FORMATS)
        return prim(name, **args)

    def visible_types(self, ns, kinds=(Struct, Union, Alias)):
        """Definitions a type expression in `ns` may refer to: earlier ones in ns and imported nss."""
        out = []
        n = self.m.namespaces[ns]
        for src in [ns] + list(n.imports):
            for d in self.m.namespaces[src].defs:
                if isinstance(d, kinds):
                    out.append(d)
        return out

    def gen_type(self, ns, depth=0, allow_nullable=True, allow_void=False, want_user=None):
        """A type expression valid at this point of namespace ns."""
        t = self.t
        vis = self.visible_types(ns)
        k = t.weighted([(40, 'prim'), (30 if vis else 0, 'ref'), (12 if depth < 2 else 0, 'list'),
                        (6 if depth < 2 else 0, 'map'), (12 if allow_nullable else 0, 'nullable')])
        if k == 'prim':
            return self.gen_prim()
        if k == 'ref':
            d = t.choice(vis)
            pct = getattr(self.cfg, 'alias_ref_pct', 0)
            if pct and t.chance(pct):
                al = [x for x in vis if isinstance(x, Alias)]
                if al:
                    d = t.choice(al)
            ref = T('ref', ns=d.ns, name=d.name)
            return ref
        if k == 'list':
            item = self.gen_type(ns, depth + 1, allow_nullable=t.chance(15))
            a = {}
            if t.chance(30):
                a['min_items'] = t.choice([0, 1, 2])
            if t.chance(30):
                a['max_items'] = t.choice([2, 3, 5])
            return T('list', item=item, args=a)
        if k == 'map':
            key = prim('String') if t.chance(70) else prim('String', min_length=1)
            return T('map', key=key, val=self.gen_type(ns, depth + 1, allow_nullable=False))
        inner = self.gen_type(ns, depth, allow_nullable=False)
        if self.m.unwrap(inner)[1]:
            return inner      # already nullable through an alias: no second '?'
        return T('nullable', inner=inner)

    # -- literals -------------------------------------------------------------------
    def gen_value(self, p, boundary=True):
        """A Python value valid for primitive type p (a T of kind prim)."""
        t = self.t
        n, a = p.name, p.args
        if n in INT_RANGES:
            lo, hi = INT_RANGES[n]
            lo = max(lo, a.get('min_value', lo))
            hi = min(hi, a.get('max_value', hi))
            c = [lo, hi, min(hi, max(lo, 0)), min(hi, max(lo, 7)), min(hi, lo + 1), max(lo, hi - 1)]
            return t.choice(c)
        if n in ('Float32', 'Float64'):
            lo = a.get('min_value', -1e30)
            hi = a.get('max_value', 1e30)
            c = [x for x in (0.0, 0.5, 1.0, -1.5, 0.25, 3.0, 100.0, -100.0, 1e6, 12345.625, lo, hi)
                 if lo <= x <= hi]
            return float(t.choice(c))
        if n == 'Boolean':
            return bool(t.draw(2))
        if n == 'String':
            if 'pattern' in a:
                for pat in PATTERNS:
                    if pat[0] == a['pattern']:
                        return t.choice(pat[1])
            lo = a.get('min_length', 0)
            hi = a.get('max_length', 12)
            ln = t.choice([lo, hi, min(hi, lo + 1)])
            alphabet = 'abcxyz é中"\\{}%\U0001F600 '
            return ''.join(alphabet[t.draw(len(alphabet))] for _ in range(ln))
        if n == 'Bytes':
            return bytes(t.draw(256) for _ in range(t.rng(0, 6)))
        if n == 'Timestamp':
            fmt = a['format']
            dt = datetime.datetime(t.choice([1970, 1999, 2015, 2024, 2038]), t.rng(1, 12), t.rng(1, 28),
                                   t.rng(0, 23), t.rng(0, 59), t.rng(0, 59))
            return datetime.datetime.strptime(dt.strftime(fmt), fmt)
        raise KeyError(n)

    def literal_default(self, p):
        """Default literal for a primitive-typed field, or None when we prefer to give none."""
        if p.name in ('Bytes', 'Timestamp'):
            return None
        v = self.gen_value(p)
        if p.name == 'String' and any(c in v for c in '\U0001F600'):
            v = v.replace('\U0001F600', 'u')
        return ('lit', v)

    # -- definitions -----------------------------------------------------------------
    def gen_alias(self, ns):
        name = self.fresh(ns, ALIAS_NAMES)
        ty = self.gen_type(ns, allow_nullable=getattr(self.cfg, 'nullable_aliases', True))
        if getattr(self.cfg, 'alias_bias', False) and self.t.chance(55):
            # alias chains, preferably across namespaces
            cands = self.visible_types(ns, (Alias,))
            far = [a for a in cands if a.ns != ns]
            if far and self.t.chance(60):
                cands = far
            if cands:
                a = self.t.choice(cands)
                ty = T('ref', ns=a.ns, name=a.name)
        pct = getattr(self.cfg, 'nullable_alias_pct', 0)
        if pct and self.t.chance(pct) and not self.m.unwrap(ty)[1]:
            ty = T('nullable', inner=ty)
        return Alias(name=name, ns=ns, type=ty, doc=self.doc({'ns': ns}, short=True), anns=[])

    def field_names(self, n, taken):
        out = []
        start = self.t.draw(len(FIELD_NAMES))
        i = 0
        while len(out) < n:
            c = FIELD_NAMES[(start + i) % len(FIELD_NAMES)]
            i += 1
            if i > len(FIELD_NAMES):
                c = '%s%d' % (c, i)
            if c not in taken:
                taken.add(c)
                out.append(c)
        return out

    def requires(self, ty, targets, seen=None):
        """Does every value of type expression ty contain a value of one of the target structs?"""
        seen = seen or set()
        rt = self.m.resolve(ty)
        if rt.kind in ('prim', 'nullable', 'map'):
            return False
        if rt.kind == 'list':
            return rt.args.get('min_items', 0) > 0 and self.requires(rt.item, targets, seen)
        d = self.m.lookup(rt.ns, rt.name)
        key = (d.ns, d.name)
        if key in targets:
            return True
        if key in seen:
            return False
        seen = seen | {key}
        if isinstance(d, Struct):
            if d.subtypes:
                subs = [sub for _, sub in self.m.subtypes_of(d)]
                return bool(subs) and all(self._struct_requires(sub, targets, seen) for sub in subs)
            return self._struct_requires(d, targets, seen)
        tags = self.m.all_tags(d)
        # open unions too: the catch-all tag can be received but never sent, so a value of an open union
        # needs one of its declared tags just like a closed one
        return bool(tags) and all(g.type is not None and self.requires(g.type, targets, seen) for g in tags)

    def _struct_requires(self, s, targets, seen):
        if (s.ns, s.name) in targets:
            return True
        for f in self.m.all_fields(s):
            if f.default is None and self.requires(f.type, targets, seen):
                return True
        return False

    def gen_field(self, ns, name, owner):
        t = self.t
        ty = self.gen_type(ns)
        if owner is not None:
            # no value could ever be built for a struct that requires an instance of itself
            # (directly, through its base, or through a type that requires it)
            targets = {(ns, owner)}
            od = self.m.lookup(ns, owner)
            while od.parent:
                targets.add(tuple(od.parent))
                od = self.m.lookup(*od.parent)
            if self.requires(ty, targets):
                ty = T('nullable', inner=ty) if not self.m.unwrap(ty)[1] else ty
        if owner is not None and t.chance(6) and self.cfg.cycles:
            # self reference through a nullable or a list
            me = T('ref', ns=ns, name=owner)
            ty = T('nullable', inner=me) if t.chance(50) else T('list', item=me, args={})
        if getattr(self.cfg, 'alias_bias', False) and t.chance(25):
            cands = [a for a in self.visible_types(ns, (Alias,)) if not self.m.unwrap(a.type)[1]]
            if cands:
                a = t.choice(cands)
                ty = T('nullable', inner=T('ref', ns=a.ns, name=a.name))
        f = Field(name=name, type=ty, default=None, doc=None, anns=[])
        inner, nullable = self.m.unwrap(ty)
        if not nullable and t.chance(35):
            if inner.kind == 'prim':
                f.default = self.literal_default(inner)
            elif inner.kind == 'ref':
                d = self.m.lookup(inner.ns, inner.name)
                if isinstance(d, Union):
                    voids = [g.name for g in self.m.all_tags(d) if g.type is None]
                    if voids:
                        f.default = ('tag', t.choice(voids))
        f.doc = self.doc({'ns': ns}, short=t.chance(50))
        return f

    def taken_names(self, parent):
        taken = set()
        while parent:
            p = self.m.lookup(*parent)
            taken.update(f.name for f in self.m.own_fields(p))
            if p.subtypes:
                taken.update(tag for tag, _ in p.subtypes['tags'])
            parent = p.parent
        return taken

    def gen_struct(self, ns, parent=None):
        t = self.t
        name = self.fresh(ns, TYPE_NAMES)
        taken = self.taken_names(parent)
        s = Struct(name=name, ns=ns, parent=parent, fields=[], doc=None, subtypes=None, examples=[])
        # register early so self references resolve
        self.m.namespaces[ns].defs.append(s)
        nf = t.rng(0, 5)
        for fname in self.field_names(nf, taken):
            s.fields.append(self.gen_field(ns, fname, name))
        s.doc = self.doc({'ns': ns})
        if not s.fields and not s.doc:
            s.doc = ['No fields.']
        return s

    def gen_union(self, ns, parent=None):
        t = self.t
        name = self.fresh(ns, TYPE_NAMES)
        if parent is not None:
            pu = self.m.lookup(*parent)
            closed = pu.closed and t.chance(50)
            taken = set(g.name for g in self.m.all_tags(pu))
        else:
            closed = t.chance(35)
            taken = set()
        u = Union(name=name, ns=ns, closed=closed, parent=parent, tags=[], doc=None, examples=[])
        self.m.namespaces[ns].defs.append(u)
        ntags = t.rng(0 if not closed and not getattr(self.cfg, 'min_one_tag', False) else 1, 5)
        start = t.draw(len(TAG_NAMES))
        i = 0
        while len(u.tags) < ntags:
            c = TAG_NAMES[(start + i) % len(TAG_NAMES)]
            i += 1
            if c in taken:
                continue
            taken.add(c)
            ty = None
            if t.chance(55):
                ty = self.gen_type(ns)
                probe = ty
                while probe.kind == 'list':
                    probe = probe.item
                if probe.kind == 'ref' and (probe.ns, probe.name) == (ns, name):
                    ty = T('nullable', inner=ty) if ty.kind != 'nullable' else ty
                if t.chance(5) and self.cfg.cycles:
                    ty = T('nullable', inner=T('ref', ns=ns, name=name))
            u.tags.append(Tag(name=c, type=ty, doc=self.doc({'ns': ns}, short=True)))
        u.doc = self.doc({'ns': ns})
        if not u.tags and not u.doc:
            u.doc = ['No tags.']
        return u

    def gen_subtype_tree(self, ns):
        t = self.t
        base = self.gen_struct(ns)
        n = t.rng(1, 3)
        closed = t.chance(30)
        tags = []
        subs = []
        taken = set(f.name for f in base.fields)
        start = t.draw(len(TAG_NAMES))
        for i in range(n):
            tag = TAG_NAMES[(start + i) % len(TAG_NAMES)]
            while tag in taken:
                tag += '_t'
            taken.add(tag)
            tags.append(tag)
        base.subtypes = {'closed': closed, 'tags': []}
        for tag in tags:
            s = self.gen_struct(ns, parent=(ns, base.name))
            # field names of subtypes must not clash with tags either (taken_names covers it)
            base.subtypes['tags'].append((tag, (ns, s.name)))
            subs.append(s)
        return base

    def gen_route(self, ns):
        t = self.t
        n = self.m.namespaces[ns]
        existing = [d for d in n.defs if isinstance(d, Route)]
        if existing and t.chance(30):
            base = t.choice(existing)
            name = base.name
            version = max(r.version for r in existing if r.name == name) + 1
        else:
            name = self.fresh(ns, ROUTE_NAMES)
            version = 1 if t.chance(75) else t.rng(2, 3)
        vis = [d for d in self.visible_types(ns)
               if isinstance(d, (Struct, Union)) or
               (isinstance(d, Alias) and self.m.unwrap(d.type)[0].kind == 'ref'
                and not self.m.unwrap(d.type)[1])]

        def io():
            if not vis or t.chance(30):
                return None
            d = t.choice(vis)
            return T('ref', ns=d.ns, name=d.name)
        r = Route(name=name, ns=ns, version=version, arg=io(), result=io(), error=io(), doc=None,
                  deprecated=None, attrs=[])
        if t.chance(20):
            others = [x for x in existing if (x.name, x.version) != (name, version)]
            if others and t.chance(60):
                o = t.choice(others)
                r.deprecated = (o.name, o.version)
            else:
                r.deprecated = True
        r.doc = self.doc({'ns': ns})
        if self.m.cfg is not None:
            for f in self.m.cfg.defs[-1].fields:
                need = f.default is None and self.m.unwrap(f.type)[1] is False
                if need or t.chance(40):
                    inner, _ = self.m.unwrap(f.type)
                    if inner.kind == 'prim':
                        if f.name == 'style':
                            r.attrs.append((f.name, ('lit', t.choice(['rpc', 'upload', 'download']))))
                        elif f.name == 'auth':
                            r.attrs.append((f.name, ('lit', t.choice(['user', 'team', 'noauth', 'app']))))
                        elif f.name == 'host':
                            r.attrs.append((f.name, ('lit', t.choice(['api', 'content', 'notify']))))
                        elif inner.name == 'Timestamp':
                            r.attrs.append((f.name, ('lit', self.gen_value(inner).strftime(inner.args['format']))))
                        else:
                            r.attrs.append((f.name, ('lit', self.gen_value(inner))))
                    elif inner.kind == 'ref':
                        d = self.m.lookup(inner.ns, inner.name)
                        voids = [g.name for g in d.tags if g.type is None]
                        r.attrs.append((f.name, ('tag', t.choice(voids))))
        return r

    # -- annotations -------------------------------------------------------------------
    def gen_annotations(self, ns):
        t = self.t
        n = self.m.namespaces[ns]
        defs = []
        kinds = t.subset(['Omitted', 'Omitted2', 'Omitted3', 'RedactedBlot', 'RedactedHash',
                          'Deprecated', 'Preview'], 45)
        for k in kinds:
            name = self.fresh(ns, ANN_NAMES)
            if k.startswith('Omitted'):
                args = [(None, CALLERS[(len(defs)) % len(CALLERS)])]
                kind = 'Omitted'
            elif k == 'RedactedBlot':
                args = [(None, 'x+')] if t.chance(40) else []
                kind = k
            elif k == 'RedactedHash':
                args = []
                kind = k
            else:
                args = []
                kind = k
            defs.append(AnnDef(name=name, ns=ns, kind=kind, args=args))
        if self.cfg.custom_annotations and t.chance(80 if getattr(self.cfg, 'custom_bias', False) else 45):
            at = AnnType(name=self.fresh(ns, ANNTYPE_NAMES), ns=ns, doc=self.doc(None, short=True),
                         params=[])
            np_ = t.rng(0, 2)
            for pn in ['importance', 'reason'][:np_]:
                p = self.gen_prim(allow=('String', 'Int32', 'Boolean'))
                p.args = {}
                f = Field(name=pn, type=p, default=None, doc=None, anns=[])
                if t.chance(50):
                    f.default = self.literal_default(p)
                at.params.append(f)
            if not at.params and not at.doc:
                at.doc = ['Marker annotation.']
            defs.append(at)
            for _ in range(t.rng(1, 4)):
                name = self.fresh(ns, ANN_NAMES)
                args = []
                kw = t.chance(50)
                for fi, f in enumerate(at.params):
                    if f.default is not None and t.chance(40):
                        if not kw:
                            if any(g.default is None for g in at.params[fi:]):
                                pass   # a later parameter is required: this one cannot be skipped
                            else:
                                break
                        else:
                            continue
                    v = self.gen_value(f.type)
                    if isinstance(v, str):
                        v = v.replace('\U0001F600', 'u')
                    args.append((f.name if kw else None, v))
                defs.append(AnnDef(name=name, ns=ns, kind=('custom', ns, at.name), args=args))
        n.defs.extend(defs)

    def apply_annotations(self, ns):
        t = self.t
        n = self.m.namespaces[ns]
        anns = [d for d in n.defs if isinstance(d, AnnDef)]
        for src in n.imports:
            if t.chance(30):
                anns += [d for d in self.m.namespaces[src].defs if isinstance(d, AnnDef)]
        if not anns:
            return
        for d in n.defs:
            targets = []
            if isinstance(d, Struct):
                targets = d.fields
            elif isinstance(d, Union) and getattr(self.cfg, 'tag_annotations', False):
                targets = [g for g in d.tags]
                for g in targets:
                    if not hasattr(g, 'anns'):
                        g.anns = []
                    if t.chance(45):
                        omit = [a for a in anns if a.kind == 'Omitted']
                        if omit:
                            a = t.choice(omit)
                            g.anns.append((a.ns, a.name))
                continue
            for f in targets:
                if not t.chance(30):
                    continue
                self._annotate(f, f.type, anns)
            if isinstance(d, Alias) and t.chance(55 if getattr(self.cfg, 'custom_bias', False) else 25):
                cands = [a for a in anns if a.kind in ('RedactedBlot', 'RedactedHash') or
                         isinstance(a.kind, tuple)]
                if cands:
                    self._annotate(d, d.type, cands, alias=True)

    def _redactable(self, ty):
        inner, _ = self.m.unwrap(ty)
        if inner.kind == 'prim':
            return inner.name in ('String', 'Int32', 'Int64', 'UInt32', 'UInt64', 'Float32', 'Float64')
        if inner.kind == 'list':
            return self._redactable(inner.item)
        if inner.kind == 'map':
            return self._redactable(inner.val)
        return False

    def _has_redactor(self, ty):
        """does the type expression pass through an alias that already carries a redactor?"""
        while True:
            if ty.kind == 'ref':
                d = self.m.lookup(ty.ns, ty.name)
                if isinstance(d, Alias):
                    for a in d.anns:
                        ad = self._anndef(a)
                        if ad.kind in ('RedactedBlot', 'RedactedHash'):
                            return True
                    ty = d.type
                    continue
                return False
            if ty.kind == 'nullable':
                ty = ty.inner
                continue
            if ty.kind == 'list':
                ty = ty.item
                continue
            if ty.kind == 'map':
                ty = ty.val
                continue
            return False

    def _anndef(self, ref):
        for d in self.m.namespaces[ref[0]].defs:
            if isinstance(d, AnnDef) and d.name == ref[1]:
                return d
        raise KeyError(ref)

    def _annotate(self, target, ty, anns, alias=False):
        t = self.t
        chosen = t.sample(anns, t.rng(1, 4))
        if getattr(self.cfg, 'custom_bias', False) and t.chance(60):
            custom = [a for a in anns if isinstance(a.kind, tuple)]
            if len(custom) >= 2:
                chosen = t.sample(custom, t.rng(2, 4)) + chosen[:1]
        have = set()
        for a in chosen:
            k = a.kind if isinstance(a.kind, str) else 'custom'
            if k in ('RedactedBlot', 'RedactedHash'):
                if 'redact' in have or not self._redactable(ty) or self._has_redactor(ty):
                    continue
                if not alias and ty.kind == 'ref':
                    continue      # "Redactors can only be applied to alias definitions, not to alias references"

                have.add('redact')
            elif k == 'Omitted':
                if alias or 'omit' in have:
                    continue
                have.add('omit')
            elif k in ('Deprecated', 'Preview'):
                if alias or 'stage' in have:
                    continue
                have.add('stage')
            target.anns.append((a.ns, a.name))

    # -- examples -------------------------------------------------------------------------
    def ex_value(self, ty, label, depth=0):
        """Example value expression for a field of type ty, or None when not expressible."""
        t = self.t
        rt = self.m.resolve(ty)
        if rt.kind == 'nullable':
            if t.chance(30):
                return ('null',)
            return self.ex_value(rt.inner, label, depth)
        if rt.kind == 'prim':
            if rt.name in ('Bytes',):
                return None
            v = self.gen_value(rt)
            if rt.name == 'Timestamp':
                v = v.strftime(rt.args['format'])
            if isinstance(v, str):
                v = v.replace('\U0001F600', 'u')
            return ('lit', v)
        if rt.kind == 'list':
            lo = rt.args.get('min_items', 0)
            hi = rt.args.get('max_items', 3)
            n = t.choice([lo, min(hi, lo + 1), min(hi, 2) if hi >= lo else lo])
            n = max(lo, min(hi, n))
            items = []
            if self.m.unwrap(rt.item)[0].kind == 'map':
                return None       # the example grammar has no map inside a list
            for _ in range(n):
                v = self.ex_value(rt.item, label, depth + 1)
                if v is None:
                    return None
                items.append(v)
            return ('list', items)
        if rt.kind == 'map':
            pairs = []
            for i in range(t.rng(0, 2)):
                v = self.ex_value(rt.val, label, depth + 1)
                if v is None:
                    return None
                k = self.gen_value(rt.key).replace('\U0001F600', 'u')
                if len(k) < rt.key.args.get('min_length', 0) or any(k == p[0] for p in pairs):
                    k = 'key%d' % i
                pairs.append((k, v))
            return ('map', pairs)
        if rt.kind == 'ref':
            d = self.m.lookup(rt.ns, rt.name)
            labels = [e.label for e in d.examples]
            if depth >= 2 and not getattr(self.cfg, 'nested_label_lists', False):
                return None   # stone crashes on label references inside nested lists (C03 finding)
            if label in labels:
                return ('label', label)
            if labels:
                return ('label', labels[0])
            return None
        return None

    def gen_examples(self, ns):
        t = self.t
        for d in list(self.m.namespaces[ns].defs):
            if not isinstance(d, (Struct, Union)) or not t.chance(55):
                continue
            if isinstance(d, Struct):
                if d.subtypes:
                    # an example of an enumerating base names one subtype tag and a label of that
                    # subtype's examples (subtypes come later in the definition list: second pass below)
                    continue
                for label in EX_LABELS[:t.rng(1, 2)]:
                    vals = []
                    ok = True
                    for f in self.m.all_fields(d):
                        _, nullable = self.m.unwrap(f.type)
                        # stone's example check only sees a '?' written on the field itself
                        optional = f.type.kind == 'nullable' or f.default is not None
                        if optional and t.chance(40):
                            continue
                        if f.default is not None and f.default[0] == 'tag':
                            continue
                        v = self.ex_value(f.type, label)
                        if v is None:
                            if optional:
                                continue
                            ok = False
                            break
                        vals.append((f.name, v))
                    if ok:
                        d.examples.append(Example(label=label,
                                                  doc=self.doc(None, short=True) if vals else None,
                                                  values=vals))
            else:
                tags = self.m.all_tags(d)
                if not tags:
                    continue
                for label in EX_LABELS[:t.rng(1, 2)]:
                    g = t.choice(tags)
                    if g.type is None:
                        v = ('null',)
                    else:
                        v = self.ex_value(g.type, label)
                        if v is None or v == ('null',):
                            continue
                    d.examples.append(Example(label=label, doc=None, values=[(g.name, v)]))

    def gen_tree_examples(self, ns):
        t = self.t
        for d in list(self.m.namespaces[ns].defs):
            if not (isinstance(d, Struct) and d.subtypes) or not t.chance(60):
                continue
            for label in EX_LABELS[:t.rng(1, 2)]:
                cands = [(tag, sub) for tag, sub in self.m.subtypes_of(d)
                         if any(e.label == label for e in sub.examples)]
                if not cands:
                    continue
                tag, sub = t.choice(cands)
                d.examples.append(Example(label=label, doc=self.doc(None, short=True),
                                          values=[(tag, ('label', label))]))

    # -- patches -----------------------------------------------------------------------------
    def gen_patches(self, ns):
        t = self.t
        n = self.m.namespaces[ns]
        cands = [d for d in n.defs if isinstance(d, (Struct, Union))]
        for d in t.sample(cands, t.rng(0, 2)):
            if isinstance(d, Struct):
                taken = self.taken_names(d.parent) | set(f.name for f in self.m.own_fields(d))
                # names used by descendants and subtype tags
                for o in self.m.types():
                    if isinstance(o, Struct):
                        chain = o
                        while chain is not None and chain is not d:
                            chain = self.m.lookup(*chain.parent) if chain.parent else None
                        if chain is d:
                            taken.update(f.name for f in self.m.own_fields(o))
                if d.subtypes:
                    taken.update(tag for tag, _ in d.subtypes['tags'])
                fields = []
                for fname in self.field_names(t.rng(1, 2), taken):
                    f = self.gen_field(ns, fname, None)
                    _, nullable = self.m.unwrap(f.type)
                    if (d.examples or self._has_examples_below(d)) and not nullable and f.default is None:
                        f.type = T('nullable', inner=f.type) if not nullable else f.type
                    fields.append(f)
                n.defs.append(Patch(ns=ns, target=d.name, kind='struct', fields=fields, tags=[]))
            else:
                taken = set(g.name for g in self.m.all_tags(d))
                for o in self.m.types():
                    if isinstance(o, Union):
                        chain = o
                        while chain is not None and chain is not d:
                            chain = self.m.lookup(*chain.parent) if chain.parent else None
                        if chain is d:
                            taken.update(g.name for g in self.m.own_tags(o))
                tags = []
                start = t.draw(len(TAG_NAMES))
                i = 0
                while len(tags) < 1:
                    c = TAG_NAMES[(start + i) % len(TAG_NAMES)]
                    i += 1
                    if c in taken:
                        continue
                    tags.append(Tag(name=c, type=None if t.chance(50) else self.gen_prim(), doc=None))
                n.defs.append(Patch(ns=ns, target=d.name, kind='union_closed' if d.closed else 'union',
                                    fields=[], tags=tags))

    def _has_examples_below(self, d):
        for o in self.m.types():
            if isinstance(o, Struct) and o.examples:
                chain = o
                while chain is not None and chain is not d:
                    chain = self.m.lookup(*chain.parent) if chain.parent else None
                if chain is d:
                    return True
        return False

    # -- whole model ------------------------------------------------------------------------------
    def build(self):
        t = self.t
        cfg = self.cfg
        nns = t.rng(1, cfg.max_ns)
        names = []
        start = t.draw(len(NS_NAMES))
        for i in range(nns):
            names.append(NS_NAMES[(start + i) % len(NS_NAMES)])
        if getattr(cfg, 'ns_names', None):
            names = list(cfg.ns_names)[:max(1, nns)]
        if cfg.stone_cfg and cfg.routes and t.chance(60):
            c = Namespace(name='stone_cfg', doc=None, imports=[], defs=[])
            self.m.cfg = c
        for i, nm in enumerate(names):
            ns = Namespace(name=nm, doc=self.doc(None), imports=[], defs=[])
            self.m.namespaces[nm] = ns
            for prev in names[:i]:
                if t.chance(60):
                    ns.imports.append(prev)
            if cfg.annotations and t.chance(cfg.ann_prob):
                self.gen_annotations(nm)
            ntypes = t.rng(1, cfg.max_types)
            for _ in range(ntypes):
                k = t.weighted([(34, 'struct'), (26, 'union'),
                                (40 if getattr(cfg, 'alias_bias', False) else 16, 'alias'), (12, 'child'),
                                (8, 'tree'), (getattr(cfg, 'uchild_weight', 8), 'uchild')])
                if k == 'struct':
                    self.gen_struct(nm)
                elif k == 'union':
                    self.gen_union(nm)
                elif k == 'alias':
                    ns.defs.append(self.gen_alias(nm))
                elif k == 'child':
                    cands = [d for d in self.visible_types(nm, (Struct,))
                             if not d.subtypes and self.m.enum_root(d) is None]
                    if cands:
                        p = t.choice(cands)
                        deep = [d for d in cands if d.parent is not None]
                        if deep and getattr(cfg, 'deep_inherit_pct', 0) and t.chance(cfg.deep_inherit_pct):
                            p = t.choice(deep)       # chains of three and more levels
                        self.gen_struct(nm, parent=(p.ns, p.name))
                    else:
                        self.gen_struct(nm)
                elif k == 'uchild':
                    cands = self.visible_types(nm, (Union,))
                    if cands:
                        p = t.choice(cands)
                        deep = [d for d in cands if d.parent is not None]
                        if deep and getattr(cfg, 'deep_inherit_pct', 0) and t.chance(cfg.deep_inherit_pct):
                            p = t.choice(deep)
                        self.gen_union(nm, parent=(p.ns, p.name))
                    else:
                        self.gen_union(nm)
                else:
                    self.gen_subtype_tree(nm)
            if cfg.cycles and t.chance(25):
                self.add_back_reference(nm)
            if i == 0 and self.m.cfg is not None:
                self.build_cfg(names[0])
            if cfg.routes:
                for _ in range(t.rng(0, 4)):
                    ns.defs.append(self.gen_route(nm))
            if cfg.annotations:
                self.apply_annotations(nm)
            if cfg.examples and t.chance(60):
                self.gen_examples(nm)
                self.gen_tree_examples(nm)
            if cfg.patches and t.chance(35):
                self.gen_patches(nm)
        return self.m

    def add_back_reference(self, ns):
        """A{.. b B?} with B defined after A and referring to A: a cycle through an optional field."""
        t = self.t
        structs = [d for d in self.m.namespaces[ns].defs if isinstance(d, Struct)]
        if len(structs) < 2:
            return
        a = structs[t.draw(len(structs) - 1)]
        later = structs[structs.index(a) + 1:]
        b = t.choice(later)
        taken = self.taken_names(a.parent) | set(f.name for f in a.fields)
        for o in self.m.types():
            if isinstance(o, Struct):
                chain = o
                while chain is not None and chain is not a:
                    chain = self.m.lookup(*chain.parent) if chain.parent else None
                if chain is a:
                    taken.update(f.name for f in self.m.own_fields(o))
        if a.subtypes:
            taken.update(tag for tag, _ in a.subtypes['tags'])
        nm = self.field_names(1, taken)[0]
        a.fields.append(Field(name=nm, type=T('nullable', inner=T('ref', ns=ns, name=b.name)),
                              default=None, doc=None, anns=[]))

    def build_cfg(self, first_ns):
        t = self.t
        c = self.m.cfg
        fields = [Field(name='auth', type=prim('String'), default=('lit', 'user'), doc=None, anns=[]),
                  Field(name='host', type=prim('String'), default=('lit', 'api'), doc=None, anns=[]),
                  Field(name='style', type=prim('String'), default=('lit', 'rpc'), doc=None, anns=[])]
        if t.chance(40):
            fields.append(Field(name='is_preview', type=prim('Boolean'), default=('lit', False),
                                doc=None, anns=[]))
        if t.chance(30):
            fields.append(Field(name='weight', type=prim('Int64'), default=None if t.chance(50) else ('lit', 1),
                                doc=None, anns=[]))
        if t.chance(30):
            fields.append(Field(name='scope', type=T('nullable', inner=prim('String')), default=None,
                                doc=None, anns=[]))
        if getattr(self.cfg, 'rich_route_attrs', False):
            # route attributes of the remaining primitive kinds (a backend that lists attributes formats them)
            if t.chance(35):
                fields.append(Field(name='since', type=T('nullable', inner=prim('Timestamp', format=t.choice(TS_FORMATS))),
                                    default=None, doc=None, anns=[]))
            if t.chance(25):
                fields.append(Field(name='ratio', type=prim('Float64'), default=('lit', 0.5), doc=None, anns=[]))
        unions = [d for d in self.m.namespaces[first_ns].defs
                  if isinstance(d, Union) and any(g.type is None for g in d.tags) and not d.parent]
        if unions and t.chance(40):
            u = t.choice(unions)
            c.imports.append(first_ns)
            voids = [g.name for g in u.tags if g.type is None]
            fields.append(Field(name='select_mode', type=T('ref', ns=first_ns, name=u.name),
                                default=('tag', t.choice(voids)) if t.chance(50) else None, doc=None,
                                anns=[]))
        c.defs.append(Struct(name='Route', ns='stone_cfg', parent=None, fields=fields, doc=None,
                             subtypes=None, examples=[]))


def canon(name):
    return name.replace('_', '').replace('/', '').lower()


def gen_model(tape, cfg=None):
    return Gen(tape, cfg or Cfg()).build()


# ----------------------------------------------------------------------------------------
# rendering

def lit(v):
    if v is None:
        return 'null'
    if v is True:
        return 'true'
    if v is False:
        return 'false'
    if isinstance(v, int):
        return str(v)
    if isinstance(v, float):
        r = repr(v)
        if 'e' in r or 'E' in r:
            # stone's lexer wants digits '.' digits before an exponent
            mant, exp = r.lower().split('e')
            if '.' not in mant:
                mant += '.0'
            return '%se%s' % (mant, exp.replace('+', ''))
        return r
    if isinstance(v, str):
        return '"%s"' % v.replace('\\', '\\\\').replace('"', '\\"').replace('\n', '\\n')
    raise TypeError(v)


class Style:
    """Rendering choices that must not change meaning."""

    def __init__(self, multiline_args=None):
        self.multiline = multiline_args    # callable() -> bool deciding for each parenthesised list


def render_type(t, cur_ns, style=None):
    if t is None:
        return 'Void'
    if t.kind == 'prim':
        if not t.args:
            return t.name
        parts = []
        order = {'Timestamp': ['format'], 'String': ['min_length', 'max_length', 'pattern'],
                 }.get(t.name, ['min_value', 'max_value'])
        for k in order:
            if k in t.args:
                if k == 'format':
                    parts.append(lit(t.args[k]))
                else:
                    parts.append('%s=%s' % (k, lit(t.args[k])))
        return '%s(%s)' % (t.name, ', '.join(parts))
    if t.kind == 'list':
        parts = [render_type(t.item, cur_ns, style)]
        for k in ('min_items', 'max_items'):
            if k in t.args:
                parts.append('%s=%d' % (k, t.args[k]))
        return 'List(%s)' % ', '.join(parts)
    if t.kind == 'map':
        return 'Map(%s, %s)' % (render_type(t.key, cur_ns, style), render_type(t.val, cur_ns, style))
    if t.kind == 'nullable':
        return render_type(t.inner, cur_ns, style) + '?'
    if t.kind == 'ref':
        return t.name if t.ns == cur_ns else '%s.%s' % (t.ns, t.name)
    raise ValueError(t.kind)


def render_doc(doc, indent):
    """doc: list of lines -> spec lines (a multi-line string literal)."""
    if not doc:
        return []
    pad = ' ' * indent
    if len(doc) == 1:
        return ['%s"%s"' % (pad, doc[0])]
    out = ['%s"%s' % (pad, doc[0])]
    for ln in doc[1:-1]:
        out.append('%s%s' % (pad, ln) if ln else '')
    out.append('%s%s"' % (pad, doc[-1]))
    return out


def render_exval(v):
    k = v[0]
    if k == 'null':
        return 'null'
    if k == 'lit':
        return lit(v[1])
    if k == 'label':
        return v[1]
    if k == 'list':
        return '[%s]' % ', '.join(render_exval(x) for x in v[1])
    if k == 'map':
        return '{%s}' % ', '.join('%s: %s' % (lit(a), render_exval(b)) for a, b in v[1])
    raise ValueError(k)


def render_ann_refs(anns, cur_ns, indent):
    return ['%s@%s' % (' ' * indent, n if ns == cur_ns else '%s.%s' % (ns, n)) for ns, n in anns]


def render_field(f, cur_ns, indent=4, style=None):
    line = '%s%s %s' % (' ' * indent, f.name, render_type(f.type, cur_ns, style))
    if f.default is not None:
        line += ' = %s' % (lit(f.default[1]) if f.default[0] == 'lit' else f.default[1])
    out = [line]
    out += render_ann_refs(f.anns, cur_ns, indent + 4)
    out += render_doc(f.doc, indent + 4)
    return out


def render_tag(g, cur_ns, indent=4, style=None):
    line = '%s%s' % (' ' * indent, g.name)
    if g.type is not None:
        line += ' ' + render_type(g.type, cur_ns, style)
    return [line] + render_ann_refs(getattr(g, 'anns', []), cur_ns, indent + 4) + render_doc(g.doc, indent + 4)


def render_examples(exs, indent=4):
    out = []
    for e in exs:
        out.append('%sexample %s' % (' ' * indent, e.label))
        out += render_doc(e.doc, indent + 4)
        for fname, v in e.values:
            out.append('%s%s = %s' % (' ' * (indent + 4), fname, render_exval(v)))
    return out


def render_def(d, style=None):
    """One top-level definition -> list of lines."""
    ns = getattr(d, 'ns', None)
    if isinstance(d, Alias):
        out = ['alias %s = %s' % (d.name, render_type(d.type, ns, style))]
        out += render_ann_refs(d.anns, ns, 4)
        out += render_doc(d.doc, 4)
        return out
    if isinstance(d, Struct):
        head = 'struct %s' % d.name
        if d.parent:
            head += ' extends %s' % (d.parent[1] if d.parent[0] == ns else '%s.%s' % d.parent)
        out = [head] + render_doc(d.doc, 4)
        if d.subtypes:
            out.append('    union_closed' if d.subtypes['closed'] else '    union')
            for tag, ref in d.subtypes['tags']:
                out.append('        %s %s' % (tag, ref[1] if ref[0] == ns else '%s.%s' % ref))
        for f in d.fields:
            out += render_field(f, ns, 4, style)
        out += render_examples(d.examples)
        return out
    if isinstance(d, Union):
        head = '%s %s' % ('union_closed' if d.closed else 'union', d.name)
        if d.parent:
            head += ' extends %s' % (d.parent[1] if d.parent[0] == ns else '%s.%s' % d.parent)
        out = [head] + render_doc(d.doc, 4)
        for g in d.tags:
            out += render_tag(g, ns, 4, style)
        out += render_examples(d.examples)
        return out
    if isinstance(d, Route):
        name = d.name if d.version == 1 else '%s:%d' % (d.name, d.version)
        io = [render_type(x, ns, style) for x in (d.arg, d.result, d.error)]
        if style is not None and style.multiline is not None and style.multiline():
            head = 'route %s(\n        %s,\n        %s,\n        %s)' % (name, io[0], io[1], io[2])
        else:
            head = 'route %s(%s, %s, %s)' % (name, io[0], io[1], io[2])
        if d.deprecated is True:
            head += ' deprecated'
        elif d.deprecated:
            head += ' deprecated by %s' % (d.deprecated[0] if d.deprecated[1] == 1
                                           else '%s:%d' % d.deprecated)
        out = head.split('\n') + render_doc(d.doc, 4)
        if d.attrs:
            out.append('    attrs')
            for k, v in d.attrs:
                out.append('        %s = %s' % (k, lit(v[1]) if v[0] == 'lit' else v[1]))
        return out
    if isinstance(d, AnnDef):
        if isinstance(d.kind, tuple):
            kind = d.kind[2] if d.kind[1] == ns else '%s.%s' % (d.kind[1], d.kind[2])
        else:
            kind = d.kind
        args = ', '.join((lit(v) if k is None else '%s=%s' % (k, lit(v))) for k, v in d.args)
        return ['annotation %s = %s(%s)' % (d.name, kind, args)]
    if isinstance(d, AnnType):
        out = ['annotation_type %s' % d.name] + render_doc(d.doc, 4)
        for f in d.params:
            out += render_field(f, ns, 4, style)
        return out
    if isinstance(d, Patch):
        out = ['patch %s %s' % (d.kind, d.target)]
        for f in d.fields:
            out += render_field(f, ns, 4, style)
        for g in d.tags:
            out += render_tag(g, ns, 4, style)
        return out
    raise TypeError(d)


def render_namespace(n, style=None):
    """-> (header lines, [import chunks], [definition chunks]); a chunk is a list of lines."""
    head = ['namespace %s' % n.name] + render_doc(n.doc, 4)
    imports = [['import %s' % i] for i in n.imports]
    defs = [render_def(d, style) for d in n.defs]
    return head, imports, defs


def assemble(head, chunks):
    lines = list(head)
    for c in chunks:
        lines.append('')
        lines += c
    return '\n'.join(lines) + '\n'


def render_reference(model, style=None):
    """Reference layout: one file per namespace, definitions in generation order, no noise.
    Patches go to a second file of their namespace (they must not share a file requirement-wise,
    but a separate file mirrors the documented use)."""
    files = []
    for n in model.all_namespaces():
        head, imports, defs = render_namespace(n, style)
        main = [c for c, d in zip(defs, n.defs) if not isinstance(d, Patch)]
        patches = [c for c, d in zip(defs, n.defs) if isinstance(d, Patch)]
        files.append(('%s.stone' % n.name, assemble(head, imports + main)))
        if patches:
            files.append(('%s_patches.stone' % n.name, assemble(['namespace %s' % n.name], patches)))
    return files


def rename_namespaces(model, mapping):
    """A deep copy of the model with namespaces renamed (all references follow)."""
    m = model.clone()

    def rn(ns):
        return mapping.get(ns, ns)

    def fix_t(t):
        if t is None:
            return
        if t.kind == 'ref':
            t.ns = rn(t.ns)
        elif t.kind == 'list':
            fix_t(t.item)
        elif t.kind == 'map':
            fix_t(t.key)
            fix_t(t.val)
        elif t.kind == 'nullable':
            fix_t(t.inner)

    def fix_field(f):
        fix_t(f.type)
        f.anns = [(rn(a), b) for a, b in getattr(f, 'anns', [])]

    new = {}
    for n in m.all_namespaces():
        n.name = rn(n.name)
        n.imports = [rn(i) for i in n.imports]
        for d in n.defs:
            if hasattr(d, 'ns'):
                d.ns = rn(d.ns)
            if isinstance(d, Alias):
                fix_t(d.type)
                d.anns = [(rn(a), b) for a, b in d.anns]
            elif isinstance(d, Struct):
                if d.parent:
                    d.parent = (rn(d.parent[0]), d.parent[1])
                if d.subtypes:
                    d.subtypes['tags'] = [(tg, (rn(r[0]), r[1])) for tg, r in d.subtypes['tags']]
                for f in d.fields:
                    fix_field(f)
            elif isinstance(d, Union):
                if d.parent:
                    d.parent = (rn(d.parent[0]), d.parent[1])
                for g in d.tags:
                    fix_t(g.type)
                    if hasattr(g, 'anns'):
                        g.anns = [(rn(a), b) for a, b in g.anns]
            elif isinstance(d, Route):
                fix_t(d.arg)
                fix_t(d.result)
                fix_t(d.error)
            elif isinstance(d, AnnDef):
                if isinstance(d.kind, tuple):
                    d.kind = ('custom', rn(d.kind[1]), d.kind[2])
            elif isinstance(d, AnnType):
                for f in d.params:
                    fix_field(f)
            elif isinstance(d, Patch):
                for f in d.fields:
                    fix_field(f)
                for g in d.tags:
                    fix_t(g.type)
        if n is not m.cfg:
            new[n.name] = n
    m.namespaces = new
    return m
