#!/venv/bin/python
"""Sensitivity suite: apply a seeded breakage to a scratch copy of /repo, run a check against it
(VERIF_REPO=<copy>), expect exit 1; remove the copy.  Usage:
   tools/sens.py list
   tools/sens.py run <name>... [--tier quick] [--scale X]
   tools/sens.py all [--prop C18]
Mutations live in tools/mutants.py as (name, property, file, old, new[, count]).
Seeded patches from /verif/seeded/<id>/patch.diff are picked up as `seeded:<id>`.
"""
import json
import os
import shutil
import subprocess
import sys
import tempfile
import time

HERE = os.path.dirname(os.path.abspath(__file__))
VERIF = os.path.dirname(HERE)
sys.path.insert(0, HERE)
from mutants import MUTANTS  # noqa


def seeded():
    out = []
    d = os.path.join(VERIF, 'seeded')
    if os.path.isdir(d):
        for n in sorted(os.listdir(d)):
            meta = os.path.join(d, n, 'meta.json')
            patch = os.path.join(d, n, 'patch.diff')
            if os.path.exists(meta) and os.path.exists(patch):
                m = json.load(open(meta))
                if m.get('property') in (None, 'none') or m.get('neutralised_by'):
                    continue     # benign controls; changes that a later repair of /repo made harmless
                out.append(('seeded:' + n, m['property'], patch))
    return out


def make_copy():
    base = '/dev/shm' if os.path.isdir('/dev/shm') else None
    d = tempfile.mkdtemp(prefix='sens-', dir=base)
    dst = os.path.join(d, 'repo')
    subprocess.run(['rsync', '-a', '--exclude', '.git', '--exclude', '__pycache__',
                    '--exclude', '*.egg-info', '/repo/', dst + '/'], check=True)
    return d, dst


def run_one(name, prop, apply_fn, tier, scale, extra_env=None):
    d, dst = make_copy()
    try:
        apply_fn(dst)
        env = dict(os.environ)
        env['VERIF_REPO'] = dst
        env.pop('PYTHONHASHSEED', None)
        env.pop('SIMSTONE_REEXEC', None)
        env['SIMSTONE_NO_EVIDENCE'] = '1'
        if extra_env:
            env.update(extra_env)
        cmd = ['/venv/bin/python', '-m', 'simstone.check', prop, '--tier', tier]
        if scale:
            cmd += ['--scale', str(scale)]
        if os.environ.get('SENS_SEED'):
            cmd += ['--seed', os.environ['SENS_SEED']]
        t0 = time.time()
        p = subprocess.run(cmd, cwd=VERIF, env=env, capture_output=True, text=True, timeout=3600)
        wall = time.time() - t0
        viol = [ln for ln in p.stdout.splitlines() if ln.startswith('VIOLATION') or ln.startswith('  class=')]
        status = 'CAUGHT' if p.returncode == 1 and viol else ('MISSED' if p.returncode == 0 else 'ERROR(%d)' % p.returncode)
        print('%-8s %-45s %s  %.0fs  %s' % (prop, name, status, wall, ' | '.join(v.strip() for v in viol[:4])[:300]))
        if status.startswith('ERROR'):
            print(p.stdout[-1500:], p.stderr[-1500:])
        sys.stdout.flush()
        return status
    finally:
        shutil.rmtree(d, ignore_errors=True)


def apply_text(file, old, new, count=1):
    def f(dst):
        p = os.path.join(dst, file)
        s = open(p, encoding='utf-8').read()
        if s.count(old) < 1:
            raise SystemExit('mutant target text not found in %s: %r' % (file, old[:60]))
        s = s.replace(old, new, count)
        open(p, 'w', encoding='utf-8').write(s)
    return f


def apply_patch(patch):
    def f(dst):
        subprocess.run(['patch', '-p1', '-s', '-d', dst, '-i', patch], check=True)
    return f


def main():
    args = sys.argv[1:]
    tier, scale, prop_filter = 'quick', None, None
    names = []
    i = 0
    cmd = args[0] if args else 'list'
    i = 1
    while i < len(args):
        if args[i] == '--tier':
            tier = args[i + 1]; i += 2
        elif args[i] == '--scale':
            scale = float(args[i + 1]); i += 2
        elif args[i] == '--prop':
            prop_filter = args[i + 1]; i += 2
        else:
            names.append(args[i]); i += 1
    table = {}
    for m in MUTANTS:
        name, prop, file, old, new = m[:5]
        cnt = m[5] if len(m) > 5 else 1
        table[name] = (prop, apply_text(file, old, new, cnt))
    for name, prop, patch in seeded():
        table[name] = (prop, apply_patch(patch))
    if cmd == 'list':
        for n, (p, _) in table.items():
            print(p, n)
        return
    if cmd == 'all':
        names = [n for n, (p, _) in table.items() if prop_filter in (None, p)]
    results = {}
    for n in names:
        prop, fn = table[n]
        results[n] = run_one(n, prop, fn, tier, scale)
    missed = [n for n, s in results.items() if s != 'CAUGHT']
    print('caught %d / %d' % (len(results) - len(missed), len(results)))
    if missed:
        print('not caught:', missed)
        sys.exit(1)


if __name__ == '__main__':
    main()
