#!/venv/bin/python
"""One-off large determinism test: the event-log digests of N runs per engine must be identical
between two fresh interpreters started with different PYTHONHASHSEED values for the harness."""
import json, os, subprocess, sys
props = sys.argv[1].split(',') if len(sys.argv) > 1 else ['C18', 'C03', 'C06', 'C07', 'C11', 'C12']
n = int(sys.argv[2]) if len(sys.argv) > 2 else 40
kinds = {'C18': ['paths', 'emit', 'builtin'], 'C03': ['damage'], 'C06': ['fleet'], 'C07': ['fleet'],
         'C11': ['model'], 'C12': ['target']}
bad = 0
for p in props:
    per = max(1, n // len(kinds[p]))
    ids = ','.join('%s:%d' % (k, i) for k in kinds[p] for i in range(1000, 1000 + per))
    outs = []
    for hs in ('7', '424242'):
        env = dict(os.environ, PYTHONHASHSEED=hs, SIMSTONE_REEXEC='1')
        r = subprocess.run(['/venv/bin/python', '-m', 'simstone.check', p, '--seed', '9', '--digest-only', ids],
                           cwd='/verif', env=env, capture_output=True, text=True)
        line = [l for l in r.stdout.splitlines() if l.startswith('DIGESTS ')]
        outs.append(json.loads(line[0][8:]) if line else {'error': r.stderr[-300:]})
    diff = [k for k in outs[0] if outs[0].get(k) != outs[1].get(k)]
    errs = [k for k, v in outs[0].items() if str(v).startswith('ERR')]
    print(p, 'runs', len(outs[0]), 'mismatches', len(diff), diff[:5], 'errors', errs[:3])
    bad += len(diff) + len(errs)
sys.exit(1 if bad else 0)
