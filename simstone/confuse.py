"""Identifier confusion: one well-formed but wrong token at a semantically meaningful site.

The C03 fault model damages bytes and tokens at random positions; most of stone's ~150 semantic
raise sites, however, are reached only when a *name* is replaced by another *existing* name of the
wrong kind (a misdirected write of one token inside the same block).  This module applies exactly one
such replacement to a spec model before it is rendered.
"""
from .specgen import (Struct, Union, Alias, Route, AnnDef, AnnType, Patch, Field, Tag, T, Example)


def names_by_kind(model, ns):
    out = {'struct': [], 'union': [], 'alias': [], 'route': [], 'ann': [], 'anntype': [], 'ns': [],
           'field': [], 'tag': [], 'label': []}
    n = model.namespaces[ns]
    for d in n.defs:
        if isinstance(d, Struct):
            out['struct'].append(d.name)
            out['field'] += [f.name for f in d.fields]
            out['label'] += [e.label for e in d.examples]
            if d.subtypes:
                out['tag'] += [t for t, _ in d.subtypes['tags']]
        elif isinstance(d, Union):
            out['union'].append(d.name)
            out['tag'] += [g.name for g in d.tags]
            out['label'] += [e.label for e in d.examples]
        elif isinstance(d, Alias):
            out['alias'].append(d.name)
        elif isinstance(d, Route):
            out['route'].append(d.name)
        elif isinstance(d, AnnDef):
            out['ann'].append(d.name)
        elif isinstance(d, AnnType):
            out['anntype'].append(d.name)
    out['ns'] = list(n.imports) + [ns]
    return out


def wrong_name(tape, names, avoid_kinds=()):
    pool = []
    for k, v in names.items():
        if k in avoid_kinds:
            continue
        pool += [(k, x) for x in v]
    pool += [('unknown', 'Nope'), ('unknown', 'nope_x'), ('builtin', 'String'), ('builtin', 'Void'),
             ('builtin', 'List'), ('keyword', 'union'), ('builtin', 'Int32')]
    # qualified forms: the namespace itself, an unknown namespace, a type used as a namespace
    own = [x for k in ('struct', 'union', 'alias', 'anntype', 'ann') for x in names.get(k, [])]
    me = names.get('ns', ['x'])[-1]
    if own:
        x = own[tape.draw(len(own))]
        pool += [('self-qualified', '%s.%s' % (me, x)), ('type-as-namespace', '%s.%s' % (x, x)),
                 ('unknown-namespace', 'nope_ns.%s' % x)]
        for other in names.get('ns', [])[:-1]:
            pool.append(('wrong-namespace', '%s.%s' % (other, x)))
    return pool[tape.draw(len(pool))]


def confuse(tape, model):
    """Mutates `model` in place (pass a clone).  -> description string or None if no site."""
    t = tape
    sites = []
    for n in model.namespaces.values():
        names = None
        for d in n.defs:
            if isinstance(d, Struct):
                for f in d.fields:
                    sites.append(('field-type', n, d, f))
                    if f.default is not None:
                        sites.append(('field-default', n, d, f))
                    if f.anns:
                        sites.append(('field-ann', n, d, f))
                sites.append(('struct-parent', n, d, None))     # also gives a parent to a root struct
                if d.subtypes:
                    sites.append(('subtype-entry', n, d, None))
                for e in d.examples:
                    sites.append(('example', n, d, e))
            elif isinstance(d, Union):
                for g in d.tags:
                    if g.type is not None:
                        sites.append(('tag-type', n, d, g))
                sites.append(('union-parent', n, d, None))      # also gives a parent to a root union
                for e in d.examples:
                    sites.append(('example', n, d, e))
            elif isinstance(d, Alias):
                sites.append(('alias-type', n, d, None))
            elif isinstance(d, Route):
                sites.append(('route-io', n, d, None))
                if d.deprecated and d.deprecated is not True:
                    sites.append(('route-deprecated-by', n, d, None))
                if d.attrs:
                    sites.append(('route-attr', n, d, None))
            elif isinstance(d, AnnDef):
                sites.append(('ann-def', n, d, None))
            elif isinstance(d, Patch):
                sites.append(('patch-target', n, d, None))
        if n.imports:
            sites.append(('import', n, None, None))
    if not sites:
        return None
    # category first (so that rare constructs get their share), then a site of that category
    cats = sorted({s[0] for s in sites})
    cat = cats[t.draw(len(cats))]
    cands = [s for s in sites if s[0] == cat]
    kind, n, d, x = cands[t.draw(len(cands))]
    names = names_by_kind(model, n.name)
    wk, wn = wrong_name(t, names)

    def set_ref(ty):
        """replace the innermost ref / prim of a type expression by a reference to the wrong name"""
        cur = ty
        while cur.kind in ('nullable', 'list', 'map'):
            nxt = cur.inner if cur.kind == 'nullable' else (cur.item if cur.kind == 'list' else cur.val)
            cur = nxt
        cur.kind = 'ref'
        cur.ns = n.name
        cur.name = wn
        cur.__dict__.pop('args', None)

    # a reference to a name that exists nowhere can never compile: the caller may demand a refusal
    sure = '!' if wk in ('unknown', 'unknown-namespace') else ''
    if kind == 'alias-type' and t.chance(25):
        # an alias of itself, directly or through a nullable / list / map wrapper; the first two can never
        # compile
        wk, wn = 'self', d.name
        wrappers = []
        cur = d.type
        while cur.kind in ('nullable', 'list', 'map'):
            wrappers.append(cur.kind)
            cur = cur.inner if cur.kind == 'nullable' else (cur.item if cur.kind == 'list' else cur.val)
        sure = '!' if all(w == 'nullable' for w in wrappers) else ''
    if kind in ('field-type', 'tag-type', 'alias-type'):
        target = x if kind != 'alias-type' else d
        set_ref(target.type)
        return sure + '%s of %s.%s -> %s %r' % (kind, d.name, getattr(x, 'name', ''), wk, wn)
    if kind == 'field-default':
        how = t.draw(4)
        if how == 0:
            x.default = ('tag', wn)
        elif how == 1:
            x.default = ('lit', t.choice(['text', 5, 2.5, True, None]))
        elif how == 2 and x.default[0] == 'tag':
            typed = [g.name for u in model.types() if isinstance(u, Union) for g in u.tags if g.type is not None]
            x.default = ('tag', t.choice(typed) if typed else 'nope')
        else:
            x.default = ('lit', 10 ** 30)
        return 'default of %s.%s -> %r' % (d.name, x.name, x.default)
    if kind == 'field-ann':
        x.anns[t.draw(len(x.anns))] = (n.name, wn)
        return sure + 'annotation on %s.%s -> %s %r' % (d.name, x.name, wk, wn)
    if kind in ('struct-parent', 'union-parent'):
        d.parent = (n.name, wn if t.chance(80) else d.name)
        return (sure if d.parent[1] == wn else '') + '%s of %s -> %r' % (kind, d.name, d.parent[1])
    if kind == 'subtype-entry':
        i = t.draw(len(d.subtypes['tags']))
        tag, ref = d.subtypes['tags'][i]
        how = t.draw(3)
        if how == 0:
            d.subtypes['tags'][i] = (tag, (n.name, wn))
        elif how == 1 and d.fields:
            d.subtypes['tags'][i] = (t.choice([f.name for f in d.fields]), ref)
        else:
            d.subtypes['tags'].append((tag + '_again', ref))
        return 'subtype entry of %s -> %r' % (d.name, d.subtypes['tags'][i])
    if kind == 'example':
        e = x
        how = t.draw(5)
        fields = [f.name for f in (model.all_fields(d) if isinstance(d, Struct) else model.all_tags(d))]
        if e.values and how in (0, 1, 2):
            i = t.draw(len(e.values))
            fname, v = e.values[i]
            if how == 0:
                pool = fields + names['tag'] + ['nope']
                e.values[i] = (pool[t.draw(len(pool))], v)
            elif how == 1:
                e.values[i] = (fname, ('label', t.choice(names['label'] + names['struct'] + ['nope', fname])))
            else:
                e.values[i] = (fname, t.choice([('lit', 'text'), ('lit', 5), ('null',), ('list', []),
                                                ('list', [('label', 'default')]), ('map', []),
                                                ('list', [('list', [('label', 'default')])]), ('lit', True)]))
        elif how == 3 and fields:
            e.values.append((fields[t.draw(len(fields))], ('label', 'default')))
        else:
            e.values = e.values[:-1]
        return 'example %s of %s -> %r' % (e.label, d.name, e.values[-3:])
    if kind == 'route-io':
        which = t.choice(['arg', 'result', 'error'])
        setattr(d, which, T('ref', ns=n.name, name=wn))
        return sure + 'route %s %s -> %s %r' % (d.name, which, wk, wn)
    if kind == 'route-deprecated-by':
        d.deprecated = (wn if t.chance(70) else d.deprecated[0], t.choice([1, 9, d.version]))
        return 'route %s deprecated by -> %r' % (d.name, d.deprecated)
    if kind == 'route-attr':
        i = t.draw(len(d.attrs))
        k, v = d.attrs[i]
        how = t.draw(4)
        if how == 0:
            d.attrs[i] = ('nope_attr', v)
        elif how == 1:
            d.attrs[i] = (k, ('tag', wn))
        elif how == 2:
            d.attrs[i] = (k, ('lit', t.choice([5, 'text', True, None, 2.5])))
        else:
            d.attrs.append((k, v))
        return 'attrs of route %s -> %r' % (d.name, d.attrs[-2:])
    if kind == 'ann-def':
        how = t.draw(3)
        if how == 0:
            d.kind = ('custom', n.name, wn)
        elif how == 1:
            d.args = d.args + [(None, 'extra'), ('nope_kw', 1)][:t.rng(1, 2)]
        else:
            d.args = [(None, t.choice([5, None, True, 2.5]))] * t.rng(1, 3)
        return 'annotation %s -> %r %r' % (d.name, d.kind, d.args)
    if kind == 'patch-target':
        d.target = wn if t.chance(70) else d.target
        d.kind = t.choice(['struct', 'union', 'union_closed'])
        return 'patch target -> %s %r (%s)' % (wk, d.target, d.kind)
    if kind == 'import':
        how = t.draw(3)
        if how == 0:
            n.imports.append(n.name)
        elif how == 1:
            n.imports.append('nope_ns')
        else:
            n.imports = n.imports[:-1]
        return 'imports of %s -> %r' % (n.name, n.imports)
    return None
