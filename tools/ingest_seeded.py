#!/venv/bin/python
"""ingest_seeded.py <id> <property> <worktree> <demo file name> "<needs>" : verify a sub-agent's seeded
change (demo fails with it, passes on /repo, 189 tests pass with it) and store it under /verif/seeded/<id>/."""
import json, os, shutil, subprocess, sys
sid, prop, wt, demo, needs = sys.argv[1:6]
PY = '/venv/bin/python'
def run(cmd, env=None, cwd=None, timeout=1800):
    e = dict(os.environ); e.update(env or {})
    p = subprocess.run(cmd, env=e, cwd=cwd, capture_output=True, text=True, timeout=timeout)
    return p.returncode, (p.stdout + p.stderr)[-1500:]
patch = os.path.join(wt, 'seeded.patch')
assert os.path.getsize(patch) > 0
# the patch must apply to /repo's current tree
rc, out = run(['git', '-C', '/repo', 'apply', '--check', patch])
print('applies to /repo HEAD:', rc == 0, out)
import tempfile
tmp = tempfile.mkdtemp(prefix='ingest-')
shutil.copy(os.path.join(wt, demo), os.path.join(tmp, demo))     # sys.path[0] must not be the worktree
rc_with, out_with = run([PY, os.path.join(tmp, demo)], env={'PYTHONPATH': wt}, cwd=tmp)
rc_without, out_without = run([PY, os.path.join(tmp, demo)], env={'PYTHONPATH': '/repo'}, cwd=tmp)
shutil.rmtree(tmp, ignore_errors=True)
print(out_with[-300:]); print('---'); print(out_without[-300:])
print('demo with change: exit', rc_with)
print('demo without change (PYTHONPATH=/repo): exit', rc_without)
rc_t, out_t = run([PY, '-m', 'pytest', '-q', '-p', 'no:cacheprovider', 'test'], env={'PYTHONPATH': wt}, cwd=wt)
line = [l for l in out_t.splitlines() if 'passed' in l or 'failed' in l][-1:]
print('tests with change:', line)
ok = rc_with == 1 and rc_without == 0 and rc_t == 0 and '189 passed' in ''.join(line)
print('CONFIRMED' if ok else 'NOT CONFIRMED')
if ok:
    d = os.path.join('/verif/seeded', sid)
    os.makedirs(d, exist_ok=True)
    shutil.copy(patch, os.path.join(d, 'patch.diff'))
    shutil.copy(os.path.join(wt, demo), os.path.join(d, demo))
    json.dump({'id': sid, 'property': prop, 'needs': needs,
               'confirmed': {'demo_with_change_exit': rc_with, 'demo_on_unmodified_repo_exit': rc_without,
                             'tests_with_change': ''.join(line),
                             'how': 'demo run with PYTHONPATH=<worktree with patch> and with PYTHONPATH=/repo; '
                                    'pytest run in the worktree with the patch applied'},
               'demo': demo, 'detected_by': None}, open(os.path.join(d, 'meta.json'), 'w'), indent=1)
sys.exit(0 if ok else 1)
