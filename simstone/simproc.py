"""Parent side of SimProc: spawn one simulated process for a history of steps."""
import json
import os
import shutil
import subprocess
import sys

from . import REPO, VERIF

_SETARCH = shutil.which('setarch')


def spawn(job, hashseed, timeout=180):
    """job: dict as described in proc.py (scratch, addr_seed, steps).  -> result dict."""
    path = os.path.join(job['scratch'], 'job.json')
    with open(path, 'w', encoding='utf-8') as f:
        json.dump(job, f)
    env = {
        'PATH': '/usr/bin:/bin',
        'PYTHONHASHSEED': str(hashseed),
        'PYTHONPATH': '%s:%s' % (VERIF, REPO),
        'VERIF_REPO': REPO,
        'LANG': 'C.UTF-8',
        'PYTHONDONTWRITEBYTECODE': '1',
        'HOME': '/nonexistent',
    }
    env.update({k: str(v) for k, v in (job.get('env') or {}).items()})
    cmd = [sys.executable, '-m', 'simstone.proc', path]
    if _SETARCH:
        cmd = [_SETARCH, 'x86_64', '-R'] + cmd
    try:
        p = subprocess.run(cmd, env=env, cwd=VERIF, capture_output=True, timeout=timeout)
    except subprocess.TimeoutExpired:
        return {'error': 'timeout'}
    line = [ln for ln in p.stdout.decode('utf-8', 'replace').splitlines() if ln.startswith('SIMPROC ')]
    if not line:
        return {'error': 'no result (exit %s): %s' % (p.returncode, p.stderr.decode('utf-8', 'replace')[-1500:])}
    return json.loads(line[-1][8:])


class ZygotePool:
    """One long-lived interpreter per hash seed; each job runs in a grandchild forked from it."""

    def __init__(self):
        self.z = {}

    def _start(self, hashseed):
        env = {
            'PATH': '/usr/bin:/bin', 'PYTHONHASHSEED': str(hashseed),
            'PYTHONPATH': '%s:%s' % (VERIF, REPO), 'VERIF_REPO': REPO, 'LANG': 'C.UTF-8',
            'PYTHONDONTWRITEBYTECODE': '1', 'HOME': '/nonexistent',
        }
        cmd = [sys.executable, '-m', 'simstone.proc', '--zygote']
        if _SETARCH:
            cmd = [_SETARCH, 'x86_64', '-R'] + cmd
        p = subprocess.Popen(cmd, env=env, cwd=VERIF, stdin=subprocess.PIPE, stdout=subprocess.PIPE,
                             stderr=subprocess.DEVNULL, text=True)
        line = p.stdout.readline()
        if 'ZYGOTE-READY' not in line:
            raise RuntimeError('zygote for hash seed %s did not start: %r' % (hashseed, line))
        self.z[hashseed] = p
        return p

    def spawn(self, job, hashseed, tag='job'):
        p = self.z.get(hashseed) or self._start(hashseed)
        path = os.path.join(job['scratch'], '%s.json' % tag)
        with open(path, 'w', encoding='utf-8') as f:
            json.dump(job, f)
        p.stdin.write(path + '\n')
        p.stdin.flush()
        line = p.stdout.readline()
        if not line.startswith('SIMPROC '):
            return {'error': 'zygote died or answered %r' % line[:200]}
        return json.loads(line[8:])

    def close(self):
        for p in self.z.values():
            try:
                p.stdin.close()
                p.wait(timeout=10)
            except Exception:
                p.kill()
        self.z = {}
